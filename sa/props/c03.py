"""C03 - parameter sweeps expand to exactly the documented element sequence.

D1 step enumeration, D2 merge precedence, D3 the three generated variants agree and each has the
documented form, D4 publication of <var>_values, D5 YAML conversion table, D6 materialisation
argument provenance.  Numerical content of ranges is not decided.

Rules are written as structural patterns with metavariables (sa/pat.py): locals are identified by
the role their definition plays, never by name.
"""
from __future__ import annotations

import ast
from typing import Dict, Iterable, List, Optional, Set, Tuple

from ..cfg import CFG, edges_guaranteeing, reaching_defs, returns_only_through
from ..engine import (
    AnalysisError,
    FuncNode,
    Repo,
    ancestors,
    assigned_value,
    call_attr,
    call_name,
    calls_in,
    dotted_name,
    kwarg,
    mutation_sites,
    norm,
    qualname_of,
    stmt_of,
    walk_no_nested,
)
from ..engine import _attach_parents, parent
from ..normal import clone, nfunc, normalize
from ..pat import Env, compile_pattern, find, find1, match, name_of, pmatch
from ..report import Report

SWEEP = "semantiva/data_processors/parametric_sweep_factory.py"
NODES = "semantiva/pipeline/nodes/nodes.py"
PREP = "semantiva/pipeline/node_preprocess.py"
CREATE = "ParametricSweepFactory.create"


def _u(e: Optional[ast.AST]) -> str:
    return ast.unparse(e) if e is not None else ""


def _local_map(fn: ast.AST) -> Dict[str, str]:
    """Locals of *fn* (stored names, not parameters) numbered by first store: rename-insensitive comparison."""
    params = {a.arg for f in ast.walk(fn) if isinstance(f, FuncNode + (ast.Lambda,)) for a in f.args.args + f.args.kwonlyargs}
    out: Dict[str, str] = {}
    stores = [n for n in ast.walk(fn) if isinstance(n, ast.Name) and isinstance(n.ctx, ast.Store)]
    stores.sort(key=lambda n: (n.lineno, n.col_offset))
    for n in stores:
        if n.id not in params and n.id not in out:
            out[n.id] = f"v{len(out)}"
    return out


def _unify(node: Optional[ast.AST], fn: ast.AST) -> str:
    """Position-free dump with the receiver (cls/self) unified and the function's locals numbered by
    first occurrence inside this statement (so the comparison is insensitive to local names)."""
    if node is None:
        return ""
    n = ast.parse(ast.unparse(node)).body[0] if isinstance(node, ast.stmt) else ast.parse(ast.unparse(node), mode="eval").body
    locals_ = set(_local_map(fn))
    order: Dict[str, str] = {}

    class T(ast.NodeTransformer):
        def visit_Name(self, x):
            if x.id in ("cls", "self"):
                x.id = "S"
            elif x.id in locals_:
                x.id = order.setdefault(x.id, f"v{len(order)}")
            return x

    T().visit(n)
    return ast.dump(n, include_attributes=False)


# The helpers of the sweep module and the class attributes of the generated classes are found by their ROLE (what
# they are, who calls / reads / writes them), never by their spelling: a private name can be renamed any day.
ROLE: Dict[str, str] = {"iterate": "_iterate_sweep", "materialise": "_materialize_sequences", "publish": "_publish_created_context"}


def _top_functions(repo: Repo) -> Dict[str, ast.AST]:
    return {n.name: n for n in repo.module(SWEEP).tree.body if isinstance(n, FuncNode)}


def _is_generator(fn: ast.AST) -> bool:
    return any(isinstance(x, (ast.Yield, ast.YieldFrom)) for x in walk_no_nested(fn))


def _called_top(fn: ast.AST, tops: Dict[str, ast.AST]) -> Set[str]:
    """module-level functions of the sweep module that *fn* calls by their plain name, directly or through other
    module-level functions (an extracted helper does not hide the function that does the work)"""
    seen: Set[str] = set()
    todo = [fn]
    while todo:
        cur = todo.pop()
        for c in ast.walk(cur):
            if isinstance(c, ast.Call) and isinstance(c.func, ast.Name) and c.func.id in tops and c.func.id not in seen:
                seen.add(c.func.id)
                todo.append(tops[c.func.id])
    return seen


def variant_bodies(repo: Repo) -> List[Tuple[str, ast.FunctionDef]]:
    """The generated sweep bodies: the framework hooks (_get_data / _process_logic) of the classes made inside the
    factory that run a step generator of the sweep module (a module-level generator function)."""
    create = repo.func(SWEEP, CREATE)
    tops = _top_functions(repo)
    out = []
    for n in ast.walk(create):
        if isinstance(n, FuncNode) and n.name in ("_get_data", "_process_logic") and isinstance(parent(n), ast.ClassDef) and any(_is_generator(tops[t]) for t in _called_top(n, tops)):
            out.append((qualname_of(n), n))
    if len(out) != 3:
        raise AnalysisError(f"{len(out)} generated sweep bodies found (3 confirmed by reading)")
    return out


def sweep_roles(repo: Repo) -> Dict[str, str]:
    """Names of the module-level functions every generated body relies on, by what they are:
      iterate     - the generator that takes `mode` and `broadcast` (public keywords of the factory) and yields the steps
      materialise - returns a pair (every return is a 2-tuple): the swept sequences and the map that is published
      publish     - returns nothing, takes two positional parameters (the map, the context)"""
    tops = _top_functions(repo)
    common: Optional[Set[str]] = None
    for _qn, f in variant_bodies(repo):
        s = _called_top(f, tops)
        common = s if common is None else common & s
    common = common or set()

    def params(fn: ast.AST) -> List[str]:
        a = fn.args
        return [p.arg for p in a.posonlyargs + a.args + a.kwonlyargs]

    def returns(fn: ast.AST) -> List[ast.Return]:
        return [r for r in walk_no_nested(fn) if isinstance(r, ast.Return)]

    it = sorted(n for n in common if _is_generator(tops[n]) and {"mode", "broadcast"} <= set(params(tops[n])))
    mat = sorted(n for n in common if not _is_generator(tops[n]) and returns(tops[n]) and all(isinstance(r.value, ast.Tuple) and len(r.value.elts) == 2 for r in returns(tops[n])))
    pub = sorted(n for n in common if not _is_generator(tops[n]) and len(tops[n].args.args) == 2 and not tops[n].args.kwonlyargs and all(r.value is None or (isinstance(r.value, ast.Constant) and r.value.value is None) for r in returns(tops[n])))
    for role, found in (("step generator (mode, broadcast)", it), ("materialisation (returns the pair sequences / created)", mat), ("publication (created, context) -> None", pub)):
        if len(found) != 1:
            raise AnalysisError(f"anchor function vanished: {SWEEP}: {len(found)} module-level functions called by all generated sweep bodies have the role `{role}` ({found})")
    return {"iterate": it[0], "materialise": mat[0], "publish": pub[0]}


def _self_attr(e: Optional[ast.AST], S: str) -> Optional[str]:
    """the attribute name when *e* is `<S>.<attr>`"""
    return e.attr if isinstance(e, ast.Attribute) and isinstance(e.value, ast.Name) and e.value.id == S else None


def _class_bindings(cd: ast.ClassDef) -> Dict[str, ast.AST]:
    """class attribute -> the value it is bound to in the class body (plain name targets)"""
    out: Dict[str, ast.AST] = {}
    for st in cd.body:
        if isinstance(st, ast.Assign):
            for t in st.targets:
                if isinstance(t, ast.Name):
                    out[t.id] = st.value
        elif isinstance(st, ast.AnnAssign) and isinstance(st.target, ast.Name) and st.value is not None:
            out[st.target.id] = st.value
    return out


def _attr_bound_to(cd: Optional[ast.AST], source: str) -> str:
    """the class attribute whose binding in the class body is the factory's *source* (a parameter of create) as given"""
    if isinstance(cd, ast.ClassDef):
        for attr, v in _class_bindings(cd).items():
            if isinstance(_strip_cast(v), ast.Name) and _strip_cast(v).id == source:
                return attr
    return "__unbound__"


def _defs(fn: ast.AST, e: Optional[ast.AST]) -> List[ast.AST]:
    """The expression itself, or the right-hand sides assigned to it when it is a local name."""
    if isinstance(e, ast.Name):
        v = assigned_value(fn, e.id)
        return v or [e]
    return [e] if e is not None else []


CREATED_ATTR = "_last_created_sequences"
CREATED: List[str] = [CREATED_ATTR]  # the attribute the generated bodies leave the created map under (set by run(), by role)


def _edges(test: ast.AST, atom) -> Set[str]:
    """edges_guaranteeing plus the dual cases: `a or b` true guarantees the atom when every disjunct's truth
    does; `a and b` false guarantees it when every conjunct's falsity does."""
    out = set(edges_guaranteeing(test, atom))
    if isinstance(test, ast.UnaryOp) and isinstance(test.op, ast.Not):
        out |= {"F" if e == "T" else "T" for e in _edges(test.operand, atom)}
    elif isinstance(test, ast.BoolOp):
        subs = [_edges(v, atom) for v in test.values]
        if isinstance(test.op, ast.Or):
            if all("T" in x for x in subs):
                out.add("T")
            if any("F" in x for x in subs):
                out.add("F")
        else:
            if all("F" in x for x in subs):
                out.add("F")
            if any("T" in x for x in subs):
                out.add("T")
    return out


# ---------------------------------------------------------------------------------------------------------
# value flow on a working copy of a normal form
# ---------------------------------------------------------------------------------------------------------

def _reach(g: CFG, starts, blocked=None, blocked_edges=None):
    """CFG.reach that does not expand a start node that is itself blocked."""
    blocked = set(blocked or ())
    return g.reach([x for x in starts if x not in blocked], blocked=blocked, blocked_edges=set(blocked_edges or ()))


def _sort_keywords(tree: ast.AST) -> ast.AST:
    """Keyword arguments in name order (matching only: `f(a=1, b=2)` and `f(b=2, a=1)` are the same call)."""
    for n in ast.walk(tree):
        if isinstance(n, ast.Call) and len(n.keywords) > 1 and all(k.arg is not None for k in n.keywords):
            n.keywords.sort(key=lambda k: k.arg)
    return tree


_KPAT: Dict[str, ast.AST] = {}


def kmatch(pattern: str, node: Optional[ast.AST], env: Optional[Env] = None) -> Optional[Env]:
    """pat.match insensitive to the order of keyword arguments."""
    if node is None:
        return None
    if pattern not in _KPAT:
        _KPAT[pattern] = _sort_keywords(clone(compile_pattern(pattern)))
    e = Env(env or {})
    return e if pmatch(_KPAT[pattern], _sort_keywords(clone(node)) if not getattr(node, "_ksorted", False) else node, e) else None


def kany(patterns, node: Optional[ast.AST], env: Optional[Env] = None) -> Optional[Env]:
    for p in patterns:
        m = kmatch(p, node, env)
        if m is not None:
            return m
    return None


def _unloop_yield_from(fn: ast.AST) -> None:
    """`yield from (E for T in I if C)` is the loop `for T in I: if C: yield E` (same steps, same laziness)."""
    def blocks(n):
        for f in ("body", "orelse", "finalbody"):
            b = getattr(n, f, None)
            if isinstance(b, list) and b and isinstance(b[0], ast.stmt):
                yield b
        for h in getattr(n, "handlers", []) or []:
            yield h.body
    todo = [fn]
    while todo:
        n = todo.pop()
        for b in blocks(n):
            for i, st in enumerate(b):
                if isinstance(st, ast.Expr) and isinstance(st.value, ast.YieldFrom) and isinstance(st.value.value, ast.GeneratorExp):
                    ge = st.value.value
                    inner: ast.stmt = ast.Expr(value=ast.Yield(value=ge.elt))
                    for gen in reversed(ge.generators):
                        for c in reversed(gen.ifs):
                            inner = ast.If(test=c, body=[inner], orelse=[])
                        inner = ast.For(target=gen.target, iter=gen.iter, body=[inner], orelse=[])
                    for x in ast.walk(inner):
                        ast.copy_location(x, st)
                        if isinstance(x, ast.Name) and x is not ge.elt and any(x is t for g2 in ge.generators for t in ast.walk(g2.target)):
                            x.ctx = ast.Store()
                    b[i] = inner
                    st = inner
                if not isinstance(st, FuncNode + (ast.ClassDef,)):
                    todo.append(st)


def _stmt_blocks(fn: ast.AST):
    """Every statement list of *fn* (nested defs / classes excluded)."""
    todo = [fn]
    while todo:
        n = todo.pop()
        bs = [b for f in ("body", "orelse", "finalbody") for b in [getattr(n, f, None)] if isinstance(b, list) and b and isinstance(b[0], ast.stmt)]
        bs += [h.body for h in getattr(n, "handlers", []) or []]
        bs += [c.body for c in getattr(n, "cases", []) or []]
        for b in bs:
            yield b
            for st in b:
                if not isinstance(st, FuncNode + (ast.ClassDef,)):
                    todo.append(st)


def _canon_records(fn: ast.AST) -> ast.AST:
    """One spelling (in place, on a working copy) for the ways of assembling / traversing a mapping that mean the same:

      X.update({k: v, ..}) / X.update(k=v)        ->  X[k] = v; ..                  (X a local that holds a dict)
      if K in X: del X[K]                         ->  X.pop(K, None)
      X = {a: b}; X[k] = v  (consecutive)         ->  X = {a: b, k: v}              (same keys, values and order)
      X = {}; for T in I: [if C:] X[k] = v        ->  X = {k: v for T in I if C}
      K in X.keys()                               ->  K in X
      {.. C[k] .. for k in C [.keys()] ..}        ->  {.. v .. for (k, v) in C.items() ..}   (any comprehension)

    so a rule that reads a record decides on what ends up under which key, not on how it was put there."""
    from ..normal import _loop_to_comp

    def names_in(e: ast.AST) -> Set[str]:
        return {x.id for x in ast.walk(e) if isinstance(x, ast.Name)}

    def is_dict_value(v: Optional[ast.AST]) -> bool:
        return isinstance(v, (ast.Dict, ast.DictComp)) or (isinstance(v, ast.Call) and dotted_name(v.func) == "dict")

    dict_locals: Set[str] = set()
    for n in walk_no_nested(fn):
        if isinstance(n, ast.Assign) and is_dict_value(n.value):
            dict_locals |= {t.id for t in n.targets if isinstance(t, ast.Name)}
        elif isinstance(n, ast.AnnAssign) and isinstance(n.target, ast.Name) and is_dict_value(n.value):
            dict_locals.add(n.target.id)

    def store(x: str, k: ast.AST, v: ast.AST, at: ast.AST) -> ast.stmt:
        st = ast.Assign(targets=[ast.Subscript(value=ast.Name(id=x, ctx=ast.Load()), slice=k, ctx=ast.Store())], value=v)
        for y in ast.walk(st):
            ast.copy_location(y, at)
        return st

    def own_store(st: ast.stmt, x: str) -> Optional[Tuple[ast.AST, ast.AST]]:
        if (isinstance(st, ast.Assign) and len(st.targets) == 1 and isinstance(st.targets[0], ast.Subscript) and isinstance(st.targets[0].value, ast.Name)
                and st.targets[0].value.id == x and not isinstance(st.targets[0].slice, ast.Slice) and x not in names_in(st.targets[0].slice) | names_in(st.value)):
            return st.targets[0].slice, st.value
        return None

    for block in list(_stmt_blocks(fn)):
        # update with a display / keywords -> stores; delete behind a membership test -> pop
        i = 0
        while i < len(block):
            st = block[i]
            c = st.value if isinstance(st, ast.Expr) else None
            if (isinstance(c, ast.Call) and isinstance(c.func, ast.Attribute) and c.func.attr == "update" and isinstance(c.func.value, ast.Name) and c.func.value.id in dict_locals
                    and (c.args or c.keywords) and len(c.args) <= 1 and all(isinstance(a, ast.Dict) and None not in a.keys for a in c.args) and all(k.arg is not None for k in c.keywords)):
                pairs = [(k, v) for a in c.args for k, v in zip(a.keys, a.values)] + [(ast.Constant(value=k.arg), k.value) for k in c.keywords]
                block[i:i + 1] = [store(c.func.value.id, k, v, st) for k, v in pairs]
                i += len(pairs)
                continue
            if isinstance(st, ast.If) and not st.orelse and len(st.body) == 1 and isinstance(st.body[0], ast.Delete) and len(st.body[0].targets) == 1:
                m = kany(["_K_ in _X_", "_K_ in _X_.keys()"], st.test)
                t = st.body[0].targets[0]
                if m and isinstance(m["_X_"], ast.Name) and isinstance(t, ast.Subscript) and ast.dump(t.value) == ast.dump(m["_X_"]) and ast.dump(t.slice) == ast.dump(m["_K_"]):
                    new = ast.Expr(value=ast.Call(func=ast.Attribute(value=m["_X_"], attr="pop", ctx=ast.Load()), args=[m["_K_"], ast.Constant(value=None)], keywords=[]))
                    for y in ast.walk(new):
                        ast.copy_location(y, st)
                    block[i] = new
            i += 1
        # display + consecutive stores -> display; empty dict + store loop -> comprehension
        i = 0
        while i + 1 < len(block):
            st, nx = block[i], block[i + 1]
            x = None
            if isinstance(st, ast.Assign) and len(st.targets) == 1 and isinstance(st.targets[0], ast.Name):
                x = st.targets[0].id
            elif isinstance(st, ast.AnnAssign) and isinstance(st.target, ast.Name) and st.value is not None:
                x = st.target.id
            v = getattr(st, "value", None)
            if x is not None and isinstance(v, ast.Call) and dotted_name(v.func) == "dict" and not v.args and not v.keywords:
                v = st.value = ast.copy_location(ast.Dict(keys=[], values=[]), v)
            if x is None or not isinstance(v, ast.Dict):
                i += 1
                continue
            kv = own_store(nx, x)
            if kv is not None:
                v.keys.append(kv[0])
                v.values.append(kv[1])
                del block[i + 1]
                continue
            if not v.keys and isinstance(nx, ast.For):
                r = _loop_to_comp(x, nx)
                if r is not None and r[0] == "dict" and not any(x in names_in(g) for g in r[2]) and x not in names_in(r[1]) | names_in(r[3]):
                    st.value = ast.copy_location(ast.DictComp(key=r[1], value=r[3], generators=r[2]), nx)
                    del block[i + 1]
            i += 1
    # membership in the keys of a mapping is membership in the mapping
    for cmp_ in [n for n in ast.walk(fn) if isinstance(n, ast.Compare)]:
        for ci, (op, right) in enumerate(zip(cmp_.ops, cmp_.comparators)):
            if isinstance(op, (ast.In, ast.NotIn)):
                m = kmatch("_X_.keys()", right)
                if m:
                    cmp_.comparators[ci] = m["_X_"]
    # comprehensions over the keys of a mapping that look the value up -> over its items
    taken = {x.id for x in ast.walk(fn) if isinstance(x, ast.Name)}
    for comp in [n for n in ast.walk(fn) if isinstance(n, (ast.ListComp, ast.SetComp, ast.GeneratorExp, ast.DictComp))]:
        for gi, gen in enumerate(comp.generators):
            if not isinstance(gen.target, ast.Name) or gen.is_async:
                continue
            m = kmatch("_X_.keys()", gen.iter)
            src = m["_X_"] if m else gen.iter
            if dotted_name(src) is None:
                continue
            k = gen.target.id
            scope: List[ast.AST] = list(gen.ifs) + [y for g2 in comp.generators[gi + 1:] for y in [g2.iter] + list(g2.ifs)]
            scope += [comp.key, comp.value] if isinstance(comp, ast.DictComp) else [comp.elt]
            want = ast.dump(ast.Subscript(value=src, slice=ast.Name(id=k, ctx=ast.Load()), ctx=ast.Load()))
            hits = [y for e in scope for y in ast.walk(e) if isinstance(y, ast.Subscript) and isinstance(y.ctx, ast.Load) and ast.dump(y) == want]
            if not hits:
                continue
            vname = f"{k}__item"
            while vname in taken:
                vname += "_"
            taken.add(vname)

            class T(ast.NodeTransformer):
                def visit_Subscript(self, n):
                    if any(n is h for h in hits):
                        return ast.copy_location(ast.Name(id=vname, ctx=ast.Load()), n)
                    return self.generic_visit(n)

            gen.ifs = [T().visit(e) for e in gen.ifs]
            for g2 in comp.generators[gi + 1:]:
                g2.iter = T().visit(g2.iter)
                g2.ifs = [T().visit(e) for e in g2.ifs]
            if isinstance(comp, ast.DictComp):
                comp.key, comp.value = T().visit(comp.key), T().visit(comp.value)
            else:
                comp.elt = T().visit(comp.elt)
            gen.target = ast.copy_location(ast.Tuple(elts=[ast.copy_location(ast.Name(id=k, ctx=ast.Store()), gen.target), ast.copy_location(ast.Name(id=vname, ctx=ast.Store()), gen.target)], ctx=ast.Store()), gen.target)
            gen.iter = ast.copy_location(ast.Call(func=ast.Attribute(value=src, attr="items", ctx=ast.Load()), args=[], keywords=[]), gen.iter)
            for y in ast.walk(gen.iter):
                if not hasattr(y, "lineno"):
                    ast.copy_location(y, gen.target)
    ast.fix_missing_locations(fn)
    return fn


def _unroll_sweep_comprehension(fn: ast.AST) -> ast.AST:
    """`X = [E for T in <.. _iterate_sweep(..) ..>]` is `X = []; for T in ..: X.append(E)` (in place, on a working copy):
    the rules on the generated bodies are stated on the loop over the sweep's steps, whichever way it is written."""
    stored: Dict[str, int] = {}
    for x in ast.walk(fn):
        if isinstance(x, ast.Name) and isinstance(x.ctx, ast.Store):
            stored[x.id] = stored.get(x.id, 0) + 1
    for block in list(_stmt_blocks(fn)):
        for i, st in enumerate(block):
            tg = st.targets[0] if isinstance(st, ast.Assign) and len(st.targets) == 1 else getattr(st, "target", None) if isinstance(st, ast.AnnAssign) else None
            v = getattr(st, "value", None)
            if not isinstance(tg, ast.Name) or not isinstance(v, ast.ListComp) or len(v.generators) != 1 or v.generators[0].ifs or v.generators[0].is_async:
                continue
            gen = v.generators[0]
            if not any(isinstance(c, ast.Call) and ROLE["iterate"] in (call_name(c) or "", call_attr(c) or "") for c in ast.walk(gen.iter)):
                continue
            tnames = [t.id for t in ast.walk(gen.target) if isinstance(t, ast.Name)]
            if any(stored.get(t, 0) != 1 for t in tnames) or tg.id in {x.id for x in ast.walk(v) if isinstance(x, ast.Name)}:
                continue  # the loop variable would leak over another local / the list is read while it is built
            init = ast.Assign(targets=[ast.Name(id=tg.id, ctx=ast.Store())], value=ast.List(elts=[], ctx=ast.Load()))
            app = ast.Expr(value=ast.Call(func=ast.Attribute(value=ast.Name(id=tg.id, ctx=ast.Load()), attr="append", ctx=ast.Load()), args=[v.elt], keywords=[]))
            loop = ast.For(target=gen.target, iter=gen.iter, body=[app], orelse=[])
            for new_st in (init, loop):
                for y in ast.walk(new_st):
                    if not hasattr(y, "lineno"):
                        ast.copy_location(y, st)
            block[i:i + 1] = [init, loop]
            return _unroll_sweep_comprehension(fn)
    ast.fix_missing_locations(fn)
    return fn


def _simple_operand(e: ast.AST) -> bool:
    """Evaluating *e* has no effect and cannot be affected by an assignment hoisted over it (a constant, a name, a dotted name)."""
    return isinstance(e, ast.Constant) or dotted_name(e) is not None


def _unwalrus(fn: ast.AST) -> None:
    """`if f((k := E)): ..` is `k = E; if f(k): ..` (in place, on a working copy): an assignment expression that is
    evaluated unconditionally and before anything else of its statement that has an effect is bound by a statement of
    its own, so the value flow sees one spelling.  Only simple statements and `if` tests (not `while`: re-evaluated;
    not behind `and` / `or` / a conditional expression / inside a comprehension or lambda: conditional)."""

    def first_walrus(e: ast.AST, before: List[ast.AST]) -> Optional[ast.NamedExpr]:
        """The assignment expression of *e* that is evaluated before anything but simple operands (collected in *before*)."""
        if isinstance(e, ast.NamedExpr):
            if isinstance(e.target, ast.Name) and not any(isinstance(x, ast.NamedExpr) for x in ast.walk(e.value)):
                return e
            return None
        if isinstance(e, ast.UnaryOp):
            kids = [e.operand]
        elif isinstance(e, ast.Compare):
            kids = [e.left] + list(e.comparators)
        elif isinstance(e, ast.BinOp):
            kids = [e.left, e.right]
        elif isinstance(e, ast.BoolOp):
            kids = [e.values[0]]
        elif isinstance(e, ast.IfExp):
            kids = [e.test]
        elif isinstance(e, ast.Attribute):
            kids = [e.value]
        elif isinstance(e, ast.Subscript):
            kids = [e.value, e.slice]
        elif isinstance(e, ast.Call):
            kids = [e.func] + list(e.args) + [k.value for k in e.keywords]
        elif isinstance(e, (ast.Tuple, ast.List)):
            kids = list(e.elts)
        else:
            return None
        for k in kids:
            if any(isinstance(x, ast.NamedExpr) for x in ast.walk(k)):
                return first_walrus(k, before)
            if not _simple_operand(k):
                return None
            before.append(k)
        return None

    changed = True
    while changed:
        changed = False
        for block in list(_stmt_blocks(fn)):
            for i, st in enumerate(block):
                if isinstance(st, ast.If):
                    host = st.test
                elif isinstance(st, (ast.Assign, ast.AnnAssign, ast.Expr, ast.Return)) and getattr(st, "value", None) is not None:
                    host = st.value
                else:
                    continue
                if not any(isinstance(x, ast.NamedExpr) for x in ast.walk(host)):
                    continue
                before: List[ast.AST] = []
                w = first_walrus(host, before)
                if w is None or any(isinstance(x, ast.Name) and x.id == w.target.id for b in before for x in ast.walk(b)):
                    continue
                new = ast.Assign(targets=[ast.Name(id=w.target.id, ctx=ast.Store())], value=w.value)
                for y in [new] + new.targets:
                    ast.copy_location(y, st)
                ref = ast.copy_location(ast.Name(id=w.target.id, ctx=ast.Load()), w)

                class T(ast.NodeTransformer):
                    def visit_NamedExpr(self, n):
                        return ref if n is w else self.generic_visit(n)

                if isinstance(st, ast.If):
                    st.test = T().visit(st.test)
                else:
                    st.value = T().visit(st.value)
                block.insert(i, new)
                changed = True
                break
            if changed:
                break
    ast.fix_missing_locations(fn)


def _scope_comprehension_vars(fn: ast.AST) -> None:
    """A comprehension has a scope of its own: its targets are not the function's locals of the same name (only the first
    iterable is evaluated outside).  Give a comprehension variable that shares its name with a parameter or with a name
    the function binds itself a name of its own (in place, on a working copy), so that `seq = sequences[var]` in a loop and
    `[len(seq) for seq in ..]` somewhere else are two variables for the passes that count the bindings of a name."""
    comp_t = (ast.ListComp, ast.SetComp, ast.GeneratorExp, ast.DictComp)

    def inner_parts(c: ast.AST) -> List[ast.AST]:
        parts: List[ast.AST] = [c.key, c.value] if isinstance(c, ast.DictComp) else [c.elt]
        for gi, g in enumerate(c.generators):
            parts.append(g.target)
            parts += list(g.ifs)
            if gi:
                parts.append(g.iter)
        return parts

    comps = [n for n in ast.walk(fn) if isinstance(n, comp_t)]
    if not comps:
        return
    comp_targets = {id(x) for c in comps for g in c.generators for x in ast.walk(g.target)}
    level: Set[str] = set()
    taken: Set[str] = set()
    for x in ast.walk(fn):
        if isinstance(x, ast.Name):
            taken.add(x.id)
            if not isinstance(x.ctx, ast.Load) and id(x) not in comp_targets:
                level.add(x.id)  # a plain binding, or the target of an assignment expression (binds outside the comprehension)
        elif isinstance(x, ast.arg):
            taken.add(x.arg)
            level.add(x.arg)
        elif isinstance(x, ast.ExceptHandler) and x.name:
            level.add(x.name)
        elif isinstance(x, (ast.Global, ast.Nonlocal)):
            level |= set(x.names)
    n_new = 0
    for c in reversed(comps):  # ast.walk is breadth-first: inner comprehensions come first here
        bound = {x.id for g in c.generators for x in ast.walk(g.target) if isinstance(x, ast.Name) and isinstance(x.ctx, ast.Store)}
        parts = inner_parts(c)
        for t in sorted(bound & level):
            inside = [x for p in parts for x in ast.walk(p)]
            if any(isinstance(x, ast.arg) and x.arg == t for x in inside):
                continue  # a lambda parameter of the same name: left alone
            if any(isinstance(x, comp_t) and any(isinstance(y, ast.Name) and y.id == t and isinstance(y.ctx, ast.Store) for g in x.generators for y in ast.walk(g.target)) for x in inside):
                continue  # an inner comprehension that still binds the name (it was left alone itself)
            n_new += 1
            new = f"{t}__c{n_new}"
            while new in taken:
                new += "_"
            taken.add(new)
            for x in inside:
                if isinstance(x, ast.Name) and x.id == t:
                    x.id = new


def _sink_block_temps(fn: ast.AST) -> None:
    """`t = E; .. t .. t ..` (in one block, t bound nowhere else and read nowhere else, E pure, nothing E reads re-bound or
    modified in the statements that follow) is `.. E .. E ..` (in place, on a working copy).  The normaliser's copy
    propagation refuses such a temporary when one of the names E reads is also the target of a comprehension or of
    another loop somewhere in the function (`seq_len = len(seq)` in a loop over `seq`, with `[len(seq) for seq in ..]`
    elsewhere); inside the one block the value cannot change, so the temporary is named sub-expression and nothing more."""
    from ..normal import _purity

    params = {a.arg for f in ast.walk(fn) if isinstance(f, FuncNode + (ast.Lambda,)) for a in f.args.posonlyargs + f.args.args + f.args.kwonlyargs + ([f.args.vararg] if f.args.vararg else []) + ([f.args.kwarg] if f.args.kwarg else [])}
    _attach_parents(fn)
    for _round in range(40):
        stores: Dict[str, int] = {}
        loads: Dict[str, List[ast.Name]] = {}
        for x in ast.walk(fn):
            if isinstance(x, ast.Name):
                if isinstance(x.ctx, ast.Load):
                    loads.setdefault(x.id, []).append(x)
                else:
                    stores[x.id] = stores.get(x.id, 0) + 1
            elif isinstance(x, ast.ExceptHandler) and x.name:
                stores[x.name] = stores.get(x.name, 0) + 1
            elif isinstance(x, (ast.Global, ast.Nonlocal)):
                for nm in x.names:
                    stores[nm] = stores.get(nm, 0) + 2
        done = False
        for block in list(_stmt_blocks(fn)):
            for i, st in enumerate(block):
                if isinstance(st, ast.Assign) and len(st.targets) == 1 and isinstance(st.targets[0], ast.Name):
                    t, rhs = st.targets[0].id, st.value
                elif isinstance(st, ast.AnnAssign) and isinstance(st.target, ast.Name) and st.value is not None:
                    t, rhs = st.target.id, st.value
                else:
                    continue
                uses = loads.get(t, [])
                if t in params or stores.get(t, 0) != 1 or not uses:
                    continue
                level = _purity_c(rhs, _purity)
                if level is None or (level == "fresh" and len(uses) != 1) or any(isinstance(x, (ast.NamedExpr, ast.Yield, ast.YieldFrom, ast.Await)) for x in ast.walk(rhs)):
                    continue
                later = block[i + 1:]
                later_ids = {id(x) for s in later for x in ast.walk(s)}
                if not all(id(u) in later_ids for u in uses):
                    continue
                free = {x.id for x in ast.walk(rhs) if isinstance(x, ast.Name)}
                if t in free:
                    continue
                rebound = {x.id for s in later for x in ast.walk(s) if isinstance(x, ast.Name) and not isinstance(x.ctx, ast.Load)}
                rebound |= {a_ for s in later for f in ast.walk(s) if isinstance(f, FuncNode + (ast.Lambda,)) for a_ in ({p.arg for p in f.args.posonlyargs + f.args.args + f.args.kwonlyargs} | ({f.args.vararg.arg} if f.args.vararg else set()) | ({f.args.kwarg.arg} if f.args.kwarg else set()))}
                if free & rebound:
                    continue
                if level != "safe" and any(r in free for s in later for _s, r in mutation_sites(s, free, include_nested=True)):
                    continue
                if level != "safe" and any(isinstance(a, FuncNode + (ast.Lambda,)) for u in uses for a in _ancestors_in(u, fn)):
                    continue  # a closure reads the variable when it runs, not when it is made
                if level == "fresh" and any(isinstance(a, (ast.For, ast.While, ast.ListComp, ast.SetComp, ast.DictComp, ast.GeneratorExp, ast.Lambda) + FuncNode) and id(a) in later_ids for u in uses for a in _ancestors_in(u, fn)):
                    continue

                class S(ast.NodeTransformer):
                    def visit_Name(self, n):
                        if isinstance(n.ctx, ast.Load) and n.id == t:
                            return ast.copy_location(clone(rhs), n)
                        return n

                for j in range(i + 1, len(block)):
                    block[j] = S().visit(block[j])
                del block[i]
                done = True
                break
            if done:
                break
        if not done:
            break
        _attach_parents(fn)
    ast.fix_missing_locations(fn)


def _while_to_for(fn: ast.AST) -> None:
    """`i = A; while i < N: BODY; i += 1` is `for i in range(A, N): BODY` (in place, on a working copy) when the two
    cannot be told apart: A an integer constant, the counter bound by nothing in BODY but the closing increment by one,
    no `continue` (it would skip the increment), N a name / constant / len(name) that BODY neither re-binds nor
    modifies, no closure in BODY, and the counter read nowhere outside the loop (its value after the loop differs)."""
    _attach_parents(fn)
    for block in list(_stmt_blocks(fn)):
        for i, st in enumerate(block):
            if not isinstance(st, ast.While) or st.orelse or not st.body:
                continue
            t = st.test
            if not (isinstance(t, ast.Compare) and len(t.ops) == 1):
                continue
            if isinstance(t.ops[0], ast.Lt) and isinstance(t.left, ast.Name):
                cnt, bound = t.left.id, t.comparators[0]
            elif isinstance(t.ops[0], ast.Gt) and isinstance(t.comparators[0], ast.Name):
                cnt, bound = t.comparators[0].id, t.left
            else:
                continue
            inner = bound.args[0] if kmatch("len(_X_)", bound) is not None else bound
            if not _simple_operand(inner):
                continue
            last = st.body[-1]
            inc = (isinstance(last, ast.AugAssign) and isinstance(last.op, ast.Add) and isinstance(last.target, ast.Name) and last.target.id == cnt
                   and isinstance(last.value, ast.Constant) and last.value.value == 1 and type(last.value.value) is int)
            inc = inc or kany([f"{cnt} = {cnt} + 1", f"{cnt} = 1 + {cnt}"], last) is not None
            if not inc:
                continue
            body = st.body[:-1]
            inside = [x for s in body for x in ast.walk(s)]
            if not body or any(isinstance(x, (ast.Continue, ast.Lambda, ast.Global, ast.Nonlocal) + FuncNode) for x in inside):
                continue
            stored = {x.id for x in inside if isinstance(x, ast.Name) and not isinstance(x.ctx, ast.Load)}
            free = {x.id for x in ast.walk(bound) if isinstance(x, ast.Name)}
            if cnt in stored or cnt in free or free & stored or any(r in free for s in body for _s, r in mutation_sites(s, free)):
                continue
            # the start value: the nearest statement before the loop that binds the counter, in the same block
            j = next((k for k in range(i - 1, -1, -1) if any(isinstance(x, ast.Name) and x.id == cnt and not isinstance(x.ctx, ast.Load) for x in ast.walk(block[k]))), None)
            if j is None:
                continue
            init = block[j]
            v = init.value if isinstance(init, ast.Assign) and len(init.targets) == 1 and isinstance(init.targets[0], ast.Name) else init.value if isinstance(init, ast.AnnAssign) and isinstance(init.target, ast.Name) else None
            if not (isinstance(v, ast.Constant) and type(v.value) is int):
                continue
            if any(isinstance(s, (ast.For, ast.While, ast.If, ast.Try, ast.With) + FuncNode) and any(isinstance(x, ast.Name) and x.id == cnt for x in ast.walk(s)) for s in block[j + 1:i]):
                continue
            own = {id(x) for x in ast.walk(st)} | {id(x) for x in ast.walk(init)}
            if any(isinstance(x, ast.Name) and x.id == cnt and id(x) not in own for x in ast.walk(fn)):
                continue
            args = [bound] if v.value == 0 else [v, bound]
            new = ast.For(target=ast.Name(id=cnt, ctx=ast.Store()), iter=ast.Call(func=ast.Name(id="range", ctx=ast.Load()), args=args, keywords=[]), body=body, orelse=[])
            ast.copy_location(new, st)
            for y in [new.target, new.iter, new.iter.func]:
                ast.copy_location(y, st)
            block[i] = new
            del block[j]
            return _while_to_for(fn)
    ast.fix_missing_locations(fn)


_REPO: List[Optional[Repo]] = [None]  # set by run(): lets a Flow resolve the calls of its function to package functions


def _callee(repo: Repo, mod, call: ast.Call, ctx: Optional[ast.AST] = None) -> Optional[Tuple[object, ast.AST, bool]]:
    """The package function *call* targets when it is reached through a name - a module-level function, or a static /
    class method named through its class - as (module, function, first parameter is the implicit class)."""
    f = call.func
    if not isinstance(f, (ast.Name, ast.Attribute)) or dotted_name(f) is None:
        return None
    if isinstance(f, ast.Attribute) and dotted_name(f).split(".")[0] in ("self", "cls"):
        return None
    try:
        r = repo.resolve_name(mod, f, ctx if ctx is not None else call)
    except Exception:
        return None
    if r is None or not isinstance(r[1], FuncNode):
        return None
    fn, p = r[1], parent(r[1])
    decos = {dotted_name(d) for d in fn.decorator_list}
    if isinstance(p, ast.Module) and not decos:
        return (r[0], fn, False)
    if isinstance(p, ast.ClassDef) and decos in ({"staticmethod"}, {"classmethod"}):
        return (r[0], fn, decos == {"classmethod"})
    return None


def _canon_call_args(fn: ast.AST, repo: Repo, mod) -> None:
    """One spelling (in place, on a working copy; matching only) for the arguments of a call to a package function:
    `f(a=x, b=y)` is `f(x, y)` when a, b are f's leading positional-or-keyword parameters - a parameter that can be
    passed by position is, as far as the leading run of supplied parameters goes; keyword-only ones stay keywords."""
    for c in [n for n in ast.walk(fn) if isinstance(n, ast.Call)]:
        if not c.keywords or any(k.arg is None for k in c.keywords) or any(isinstance(a, ast.Starred) for a in c.args):
            continue
        hit = _callee(repo, mod, c)
        if hit is None or hit[1].args.posonlyargs:
            continue
        pos = [p.arg for p in hit[1].args.args][1 if hit[2] else 0:]
        kws = {k.arg: k for k in c.keywords}
        n = len(c.args)
        while n < len(pos) and pos[n] in kws:
            k = kws.pop(pos[n])
            c.args.append(k.value)
            c.keywords.remove(k)
            n += 1


def _purity_c(e: ast.AST, purity) -> Optional[str]:
    """normal._purity, plus: a list / set / dict comprehension whose parts are pure builds a fresh object"""
    if isinstance(e, (ast.ListComp, ast.SetComp, ast.DictComp)):
        parts = ([e.key, e.value] if isinstance(e, ast.DictComp) else [e.elt]) + [x for g_ in e.generators for x in [g_.iter] + list(g_.ifs)]
        if any(g_.is_async for g_ in e.generators) or not all(isinstance(x, (ast.Name, ast.Tuple, ast.List, ast.expr_context)) for g_ in e.generators for x in ast.walk(g_.target)):
            return None
        return "fresh" if all(_purity_c(x, purity) is not None for x in parts) else None
    if isinstance(e, ast.Call) and isinstance(e.func, ast.Name) and e.func.id in ("range", "enumerate", "zip", "reversed") and not e.keywords and not any(isinstance(a, ast.Starred) for a in e.args):
        return "fresh" if all(_purity_c(a, purity) is not None for a in e.args) else None  # a one-shot iterator: single use only
    return purity(e)


def _ancestors_in(node: ast.AST, root: ast.AST) -> List[ast.AST]:
    out = []
    for a in ancestors(node):
        if a is root:
            break
        out.append(a)
    return out


class Flow:
    """Working copy of a (normal-form) function: one spelling for the ways a mapping is assembled / traversed
    (_canon_records), calls with sorted keywords, `yield from <genexp>` as a loop,
    a CFG without implicit exception edges, and *value expansion*: a local name read at a CFG node is replaced
    by the right-hand sides of the definitions that reach that node (recursively, optionally only along the
    paths of one scenario = a set of blocked branch edges).  What is left are parameters as they were at
    entry, loop / comprehension variables and attribute reads: rules compare that expansion with the
    documented expression, so locals, temporaries, merged / split assignments and statement order of
    independent statements do not matter."""

    def __init__(self, nf: ast.AST, post=None, loops: bool = False):
        work = clone(nf)
        _while_to_for(work)
        _unwalrus(work)
        _scope_comprehension_vars(work)
        _sink_block_temps(work)
        if loops:
            # the accumulate loops the normaliser left alone because of a named sub-expression in their body
            # (`for v in names: seq = sequences[v]; out.append(seq)`) are one-statement loops now ..
            from ..normal import _ifexp, _loops
            _ifexp(work)  # .. and the if / else of one store whose branches were several statements long is a conditional expression
            _loops(work)
        self.fn = _canon_records(work)
        _unloop_yield_from(self.fn)
        _sort_keywords(self.fn)
        ast.fix_missing_locations(self.fn)
        _attach_parents(self.fn)
        self.fn._parent = parent(nf)  # type: ignore[attr-defined]
        if _REPO[0] is not None:
            try:
                _canon_call_args(self.fn, _REPO[0], _REPO[0].module_of(self.fn))
            except AnalysisError:
                pass  # a function made up by a rule (no module around it): nothing to resolve
        for n in ast.walk(self.fn):
            n._ksorted = True  # type: ignore[attr-defined]
        self.g = CFG(self.fn, may_raise=lambda p: set())
        a = self.fn.args
        self.params = {x.arg for x in a.posonlyargs + a.args + a.kwonlyargs} | ({a.vararg.arg} if a.vararg else set()) | ({a.kwarg.arg} if a.kwarg else set())
        self.post = post or (lambda e: e)
        self.defnodes: Dict[str, List[int]] = {}
        for n in self.g.nodes:
            for nm in self._defined(n):
                self.defnodes.setdefault(nm, []).append(n.id)
        self.mutated = {r for _s, r in mutation_sites(self.fn, {x.id for x in ast.walk(self.fn) if isinstance(x, ast.Name)})}
        self._xcache: Dict[Tuple[int, int, frozenset], List[ast.AST]] = {}

    @staticmethod
    def _defined(n) -> Set[str]:
        a = n.ast
        if a is None:
            return set()
        tg: List[ast.AST] = []
        if n.kind == "stmt" and isinstance(a, ast.Assign):
            tg = list(a.targets)
        elif n.kind == "stmt" and isinstance(a, (ast.AnnAssign, ast.AugAssign)):
            tg = [a.target] if getattr(a, "value", None) is not None else []
        elif n.kind == "for" and isinstance(a, ast.For):
            tg = [a.target]
        elif n.kind == "with" and isinstance(a, ast.With):
            tg = [i.optional_vars for i in a.items if i.optional_vars is not None]
        elif n.kind == "except" and isinstance(a, ast.ExceptHandler) and a.name:
            return {a.name}
        out = {x.id for t in tg for x in ast.walk(t) if isinstance(x, ast.Name) and isinstance(x.ctx, ast.Store)}
        if n.kind == "stmt":
            out |= {x.target.id for x in ast.walk(a) if isinstance(x, ast.NamedExpr) and isinstance(x.target, ast.Name)}
        return out

    # -- nodes ------------------------------------------------------------------------------------------
    def nid(self, node: ast.AST) -> int:
        ids = self.g.nodes_for(stmt_of(node))
        if not ids:
            raise AnalysisError(f"no CFG node for `{_u(stmt_of(node))[:80]}`")
        return ids[0]

    def reachable(self, be=frozenset()) -> Set[int]:
        return set(self.g.reach([self.g.entry], blocked_edges=set(be)))

    # -- reaching definitions along a scenario ------------------------------------------------------------
    def rdefs(self, name: str, use: int, be=frozenset()) -> Tuple[List[int], bool]:
        defs = self.defnodes.get(name, [])
        if not defs:
            return [], True
        be = set(be)
        live = self.reachable(frozenset(be))
        out = []
        for d in defs:
            if d not in live:
                continue
            blocked = {o for o in defs if o != d and o != use}
            starts = [t for t, l in self.g.succ[d] if (d, l) not in be and t not in blocked]  # reach() expands blocked starts
            if use in self.g.reach(starts, blocked=blocked, blocked_edges=be):
                out.append(d)
        entry = self.g.entry not in defs and use in self.g.reach([self.g.entry], blocked={o for o in defs if o != use}, blocked_edges=be)
        return out, entry

    def _def_value(self, name: str, d: int) -> Optional[ast.AST]:
        """The expression bound to *name* by definition node *d* (None: the name stands for itself, e.g. a loop variable)."""
        n = self.g.nodes[d]
        a = n.ast
        if n.kind != "stmt":
            return None
        if isinstance(a, ast.AnnAssign) and isinstance(a.target, ast.Name):
            return a.value
        if isinstance(a, ast.Assign):
            for t in a.targets:
                if isinstance(t, ast.Name) and t.id == name:
                    return a.value
                if isinstance(t, (ast.Tuple, ast.List)):
                    idx = [i for i, e in enumerate(t.elts) if isinstance(e, ast.Name) and e.id == name]
                    if idx and not any(isinstance(e, ast.Starred) for e in t.elts):
                        if isinstance(a.value, (ast.Tuple, ast.List)) and len(a.value.elts) == len(t.elts):
                            return a.value.elts[idx[0]]
                        return ast.Subscript(value=a.value, slice=ast.Constant(value=idx[0]), ctx=ast.Load())
        return ast.Name(id=f"__opaque_{name}__", ctx=ast.Load())

    def record_of(self, e: ast.AST, at: int) -> Optional[ast.Dict]:
        """The dict display *e* stands for at CFG node *at*: a display, or a local with exactly one reaching definition
        that is a display (as assembled - see _canon_records), not modified afterwards, whose entries read nothing that
        is re-bound between the definition and *at* (so they mean the same at *at* and can be expanded there)."""
        if isinstance(e, ast.Dict):
            return e
        if not isinstance(e, ast.Name) or e.id in self.mutated:
            return None
        ds, entry = self.rdefs(e.id, at)
        if entry or len(ds) != 1:
            return None
        v = self._def_value(e.id, ds[0])
        if not isinstance(v, ast.Dict):
            return None
        for x in ast.walk(v):
            if isinstance(x, ast.Name) and isinstance(x.ctx, ast.Load) and x.id in self.defnodes:
                a, b = self.rdefs(x.id, ds[0]), self.rdefs(x.id, at)
                if (sorted(a[0]), a[1]) != (sorted(b[0]), b[1]):
                    return None
        return v

    def expand(self, e: ast.AST, at: int, be=frozenset(), keep: Iterable[str] = (), _depth: int = 0) -> List[ast.AST]:
        """All expansions of expression *e* evaluated at CFG node *at* (see class doc)."""
        be = frozenset(be)
        key = (id(e), at, be, tuple(sorted(keep)))
        if key in self._xcache:
            return self._xcache[key]
        bound: Set[str] = set()
        for x in ast.walk(e):
            if isinstance(x, ast.comprehension):
                bound |= {t.id for t in ast.walk(x.target) if isinstance(t, ast.Name)}
            elif isinstance(x, ast.Lambda):
                bound |= {p.arg for p in x.args.args + x.args.kwonlyargs}
        names = []
        for x in ast.walk(e):
            if isinstance(x, ast.Name) and isinstance(x.ctx, ast.Load) and x.id not in bound and x.id not in names and x.id not in keep and x.id in self.defnodes:
                names.append(x.id)
        choices: List[Tuple[str, List[Optional[ast.AST]]]] = []
        for nm in names:
            ds, entry = self.rdefs(nm, at, be)
            alts: List[Optional[ast.AST]] = []
            if entry and nm in self.params:
                alts.append(None)
            for d in ds:
                v = self._def_value(nm, d)
                if v is None:
                    alts.append(None)
                elif _depth > 12:
                    alts.append(ast.Name(id=f"__opaque_{nm}__", ctx=ast.Load()))
                elif nm in self.mutated and not isinstance(v, ast.Name):
                    alts.append(ast.Name(id=f"__mutated_{nm}__", ctx=ast.Load()))
                else:
                    alts.extend(self.expand(v, d, be, keep, _depth + 1))
            seen_d: Dict[str, Optional[ast.AST]] = {}
            for x in alts:
                seen_d.setdefault("" if x is None else ast.dump(x), x)
            if seen_d:
                choices.append((nm, list(seen_d.values())))
        total = 1
        for _nm, al in choices:
            total *= len(al)
        if total > 64:
            raise AnalysisError(f"{getattr(self.fn, 'name', '?')}: `{_u(e)[:80]}` has {total} possible values (too many definitions reach it)")
        results: List[ast.AST] = []

        def rec(i: int, mapping: Dict[str, ast.AST]) -> None:
            if i == len(choices):
                results.append(self.post(_substitute(e, mapping, bound)))
                return
            nm, al = choices[i]
            for x in al:
                m2 = dict(mapping)
                if x is not None:
                    m2[nm] = x
                rec(i + 1, m2)

        rec(0, {})
        for r in results:
            for x in ast.walk(r):
                x._ksorted = True  # type: ignore[attr-defined]
        self._xcache[key] = results
        self._keepalive = getattr(self, "_keepalive", []) + [e]
        return results

    # -- branch edges ---------------------------------------------------------------------------------------
    def atom_on(self, atom, at: int, be=frozenset()):
        """*atom* applied to a test as written or, failing that, to its expansion."""
        def f(e: ast.AST) -> Optional[bool]:
            r = atom(self.post(e))
            if r is not None:
                return r
            try:
                xs = self.expand(e, at, be)
            except AnalysisError:
                return None
            rs = {atom(x) for x in xs}
            return rs.pop() if len(rs) == 1 else None
        return f

    def edges(self, atom, be=frozenset()) -> Set[Tuple[int, str]]:
        """Branch edges on which *atom* is guaranteed to hold."""
        out: Set[Tuple[int, str]] = set()
        for n in self.g.nodes:
            if n.kind in ("if", "while") and n.part is not None:
                for lab in _edges(n.part, self.atom_on(atom, n.id, be)):
                    out.add((n.id, lab))
        return out

    def truth(self, test: ast.AST, known, at: int, be=frozenset()) -> Optional[bool]:
        """Three-valued value of *test* when the atomic tests have the truth values *known* gives them (None: not known)."""
        if isinstance(test, ast.UnaryOp) and isinstance(test.op, ast.Not):
            return _tri_not(self.truth(test.operand, known, at, be))
        if isinstance(test, ast.BoolOp):
            vs = [self.truth(v, known, at, be) for v in test.values]
            return _tri_all(vs) if isinstance(test.op, ast.And) else _tri_not(_tri_all([_tri_not(v) for v in vs]))
        return self.atom_on(known, at, be)(test)

    def impossible(self, known, be=frozenset()) -> Set[Tuple[int, str]]:
        """Branch edges that cannot be taken in the scenario in which the atomic tests have the truth values of *known*:
        the scenario is followed through compound tests (`a and b`, `not a or b`) as well as through plain ones."""
        out: Set[Tuple[int, str]] = set()
        for n in self.g.nodes:
            if n.kind in ("if", "while") and n.part is not None:
                v = self.truth(n.part, known, n.id, be)
                if v is not None:
                    out.add((n.id, "F" if v else "T"))
        return out

    def edges_in(self, atom, known, be=frozenset()) -> Set[Tuple[int, str]]:
        """Branch edges on which *atom* is guaranteed to hold in the scenario *known* (a conjunct that is true in the
        scenario cannot be the reason for an `and` to be false; a disjunct that is false cannot make an `or` true)."""
        out: Set[Tuple[int, str]] = set()
        for n in self.g.nodes:
            if n.kind in ("if", "while") and n.part is not None:
                for lab in self._edges_in(n.part, self.atom_on(atom, n.id, be), lambda t, _n=n: self.truth(t, known, _n.id, be)):
                    out.add((n.id, lab))
        return out

    def _edges_in(self, test: ast.AST, atom, tv) -> Set[str]:
        out = set(_edges(test, atom))
        if isinstance(test, ast.UnaryOp) and isinstance(test.op, ast.Not):
            out |= {"F" if e == "T" else "T" for e in self._edges_in(test.operand, atom, tv)}
        elif isinstance(test, ast.BoolOp):
            subs = [(self._edges_in(v, atom, tv), tv(v)) for v in test.values]
            if isinstance(test.op, ast.And):
                if all(k is True or "F" in x for x, k in subs) and any("F" in x for x, _k in subs):
                    out.add("F")
            elif all(k is False or "T" in x for x, k in subs) and any("T" in x for x, _k in subs):
                out.add("T")
        return out

    def holds_at(self, expr: ast.AST, atom, be=frozenset()) -> bool:
        """Whenever *expr* is evaluated, *atom* holds: its statement is reached only through guaranteeing branch
        edges, or it sits in the guaranteeing arm of a conditional expression."""
        st = stmt_of(expr)
        at = self.nid(expr)
        ge = self.edges(atom, be)
        if ge:
            seen = self.g.reach([self.g.entry], blocked_edges=set(be) | ge)
            if at not in seen and not (isinstance(st, (ast.If, ast.While)) and False):
                return True
        child: ast.AST = expr
        f = self.atom_on(atom, at, be)
        while child is not st:
            p = parent(child)
            if p is None:
                break
            if isinstance(p, ast.IfExp) and child is not p.test:
                lab = "T" if child is p.body else "F"
                if lab in _edges(p.test, f):
                    return True
            if isinstance(p, ast.BoolOp) and child is not p.values[0]:
                # `a and X`: X is evaluated only when a was true; `a or X`: only when a was false
                before = p.values[:p.values.index(child)]
                lab = "T" if isinstance(p.op, ast.And) else "F"
                if any(lab in _edges(b, f) for b in before):
                    return True
            child = p
        return False


def _substitute(e: ast.AST, mapping: Dict[str, ast.AST], bound: Set[str]) -> ast.AST:
    class S(ast.NodeTransformer):
        def visit_Name(self, n):
            if isinstance(n.ctx, ast.Load) and n.id in mapping and n.id not in bound:
                return clone(mapping[n.id])
            return n
    return S().visit(clone(e))


def _leaves(e: ast.AST, conds: Tuple = ()) -> List[Tuple[ast.AST, Tuple]]:
    """Alternatives of a (nested) conditional expression with the (test, 'T'|'F') choices leading to each."""
    if isinstance(e, ast.IfExp):
        return _leaves(e.body, conds + ((e.test, "T"),)) + _leaves(e.orelse, conds + ((e.test, "F"),))
    return [(e, conds)]


def _merge_layers(fn: ast.AST, sources: Set[str]) -> Optional[List[Tuple[List[str], Set[str]]]]:
    """For every path through *fn* to a return: (the mappings layered into the returned dict, in order - a later layer
    overwrites an earlier one -, the source mappings known to be empty on that path, which are left out of the layers:
    layering an empty mapping changes nothing).  None when the body is not a composition of copies / updates of *sources*
    behind tests of their emptiness."""

    def val(e: ast.AST, env: Dict[str, List[str]]) -> Optional[List[str]]:
        if isinstance(e, ast.Name):
            return [e.id] if e.id in sources else (list(env[e.id]) if e.id in env else None)
        if isinstance(e, ast.Dict):
            out: List[str] = []
            for k, v in zip(e.keys, e.values):
                if k is not None:
                    return None
                x = val(v, env)
                if x is None:
                    return None
                out += x
            return out
        if isinstance(e, ast.DictComp):  # an entry-by-entry copy
            m = kany(["{_k_: _v_ for (_k_, _v_) in _X_.items()}", "{_k_: _X_[_k_] for _k_ in _X_}", "{_k_: _X_[_k_] for _k_ in _X_.keys()}"], e)
            return val(m["_X_"], env) if m else None
        if isinstance(e, ast.BinOp) and isinstance(e.op, ast.BitOr):
            l, r = val(e.left, env), val(e.right, env)
            return None if l is None or r is None else l + r
        if isinstance(e, ast.Call):
            fnm = dotted_name(e.func)
            if fnm == "dict" and len(e.args) <= 1 and all(k.arg is None for k in e.keywords):
                out = []
                for x in list(e.args) + [k.value for k in e.keywords]:
                    m = kmatch("_X_.items()", x)
                    y = val(m["_X_"] if m else x, env)
                    if y is None:
                        return None
                    out += y
                return out
            if isinstance(e.func, ast.Attribute) and e.func.attr == "copy" and not e.args and not e.keywords:
                return val(e.func.value, env)
        return None

    def update(target: str, e: ast.AST, env: Dict[str, List[str]]) -> bool:
        x = val(e, env)
        if target not in env or x is None:
            return False
        env[target] = env[target] + x
        return True

    def emptiness(t: ast.AST) -> Optional[Tuple[str, bool]]:
        """(source, True) when the truth of *t* says the source mapping is empty, (source, False) when it says it is not"""
        if isinstance(t, ast.UnaryOp) and isinstance(t.op, ast.Not):
            r = emptiness(t.operand)
            return (r[0], not r[1]) if r else None
        if isinstance(t, ast.Name) and t.id in sources:
            return (t.id, False)
        m = kany(["len(_X_) == 0", "_X_ == {}", "len(_X_) < 1"], t)
        if m and isinstance(m["_X_"], ast.Name) and m["_X_"].id in sources:
            return (m["_X_"].id, True)
        m = kany(["len(_X_) > 0", "len(_X_) != 0", "_X_ != {}", "len(_X_) >= 1", "len(_X_)"], t)
        if m and isinstance(m["_X_"], ast.Name) and m["_X_"].id in sources:
            return (m["_X_"].id, False)
        return None

    results: List[Tuple[List[str], Set[str]]] = []

    class Unknown(Exception):
        pass

    def walk(stmts: List[ast.stmt], env: Dict[str, List[str]], empty: Set[str]) -> None:
        for i, st in enumerate(stmts):
            if isinstance(st, ast.Expr) and isinstance(st.value, ast.Constant):
                continue
            if isinstance(st, ast.Return):
                x = val(st.value, env) if st.value is not None else None
                if x is None:
                    raise Unknown()
                results.append(([l for l in x if l not in empty], set(empty)))
                return
            if isinstance(st, ast.If):
                r = emptiness(st.test)
                for arm, is_true in ((st.body, True), (st.orelse, False)):
                    e2 = set(empty)
                    if r is not None and r[1] == is_true:
                        e2.add(r[0])
                    if r is not None and r[1] != is_true and r[0] in empty:
                        continue  # the source is known to be empty: this arm is not taken
                    walk(list(arm) + list(stmts[i + 1:]), {k: list(v) for k, v in env.items()}, e2)
                return
            if isinstance(st, (ast.Assign, ast.AnnAssign)) and getattr(st, "value", None) is not None:
                tg = st.targets[0] if isinstance(st, ast.Assign) and len(st.targets) == 1 else getattr(st, "target", None)
                x = val(st.value, env)
                if not isinstance(tg, ast.Name) or x is None or tg.id in sources:
                    raise Unknown()
                env[tg.id] = x
                continue
            if isinstance(st, ast.AugAssign) and isinstance(st.op, ast.BitOr) and isinstance(st.target, ast.Name) and update(st.target.id, st.value, env):
                continue
            if isinstance(st, ast.Expr):
                m = kmatch("_M_.update(_Y_)", st.value) or kmatch("_M_.update(**_Y_)", st.value)
                if m and isinstance(m["_M_"], ast.Name) and update(m["_M_"].id, m["_Y_"], env):
                    continue
            if isinstance(st, ast.For):
                m = (kmatch("for (_k_, _v_) in _Y_.items():\n    _M_[_k_] = _v_", st) or kmatch("for _k_ in _Y_:\n    _M_[_k_] = _Y_[_k_]", st)
                     or kmatch("for _k_ in _Y_.keys():\n    _M_[_k_] = _Y_[_k_]", st))
                if m and isinstance(m["_M_"], ast.Name) and update(m["_M_"].id, m["_Y_"], env):
                    continue
            raise Unknown()
        raise Unknown()  # falls off the end without returning the merged mapping

    try:
        walk(list(fn.body), {}, set())
    except Unknown:
        return None
    return results or None


def _bind_args(call: ast.Call, names: List[str], record=None) -> Optional[Dict[str, ast.AST]]:
    """Arguments of *call* by parameter name (positional ones through *names*); None when it cannot be told.
    `**rec` is read entry by entry when *record* (expression -> the one display it stands for at the call, see
    Flow.record_of) shows it to be a display with constant names: `f(**{'a': x}, b=y)` is `f(a=x, b=y)`."""
    if any(isinstance(a, ast.Starred) for a in call.args) or len(call.args) > len(names):
        return None
    out = {n: a for n, a in zip(names, call.args)}
    for k in call.keywords:
        if k.arg is None:
            d = record(k.value) if record is not None else None
            if not isinstance(d, ast.Dict) or not all(isinstance(x, ast.Constant) and isinstance(x.value, str) for x in d.keys):
                return None
            entries = [(x.value, v) for x, v in zip(d.keys, d.values)]
        else:
            entries = [(k.arg, k.value)]
        for nm, v in entries:
            if nm in out:
                return None
            out[nm] = v
    return out


def _strip_cast(e: ast.AST) -> ast.AST:
    """`cast(T, x)` is x at run time"""
    while True:
        m = kany(["cast(_T_, _X_)", "typing.cast(_T_, _X_)"], e)
        if not m:
            return e
        e = m["_X_"]


def _field_read(F: "Flow", e: Optional[ast.AST], at: int, recv, key: str, defaults: Iterable[str]) -> bool:
    """Expression *e*, evaluated at CFG node *at* of *F*, is `M.get(key, default)` - the entry *key* of the mapping M
    (what *recv* recognises, applied to the expanded receiver) when the key is present, one of the *defaults* (patterns)
    when it is not - however that is spelled: `M.get(key, d)`, `M[key] if key in M else d`, an if / else or a guard that
    re-assigns a default.  Decided per scenario (key present / key absent): the branch edges that are impossible in the
    scenario are blocked, the value is expanded along the remaining paths, the arms of conditional expressions that the
    scenario excludes are dropped, and what is left has to be the entry (present) or the default (absent)."""
    if e is None:
        return False
    defaults = list(defaults)

    def is_key(k: ast.AST) -> bool:
        return isinstance(k, ast.Constant) and k.value == key

    def present(t: ast.AST) -> Optional[bool]:
        m, pol = kmatch("_K_ in _X_", t), True
        if not m:
            m, pol = kmatch("_K_ not in _X_", t), False
        if not m:
            m = kany(["_K_ in _X_.keys()", "_X_.__contains__(_K_)"], t)
            pol = True
        if m and is_key(m["_K_"]) and recv(m["_X_"]):
            return pol
        return None

    def absent(t: ast.AST) -> Optional[bool]:
        return _tri_not(present(t))

    def entry(leaf: ast.AST, scenario: str) -> bool:
        m = kmatch("_X_[_K_]", leaf)
        if m:
            return scenario == "present" and is_key(m["_K_"]) and recv(m["_X_"])
        m = kmatch("_X_.get(_K_)", leaf)
        if m:
            return is_key(m["_K_"]) and recv(m["_X_"]) and (scenario == "present" or "None" in defaults)
        m = kmatch("_X_.get(_K_, _D_)", leaf)
        if m:
            return is_key(m["_K_"]) and recv(m["_X_"]) and (scenario == "present" or kany(defaults, m["_D_"]) is not None)
        return scenario == "absent" and kany(defaults, leaf) is not None

    for scenario, impossible, anti in (("present", absent, absent), ("absent", present, present)):
        be = frozenset(F.edges(impossible))
        if at not in F.reachable(be):
            continue
        leaves = 0
        for x in F.expand(e, at, be):
            for leaf, conds in _split_ifexp(_strip_cast(x)):
                if any(lab in _edges(t, anti) for t, lab in conds):
                    continue  # an arm taken in the other scenario only
                leaves += 1
                if not entry(_strip_cast(leaf), scenario):
                    return False
        if not leaves:
            return False
    return True


def _reads_created(e: ast.AST) -> bool:
    """*e* reads the sweep processor's record of materialised sequences (attribute or getattr spelling)."""
    return any((isinstance(x, ast.Attribute) and x.attr == CREATED[0]) or (isinstance(x, ast.Constant) and x.value == CREATED[0]) for x in ast.walk(e))


def _node_publication(repo: Repo, R: Report, rule: str, qn: str) -> int:
    """Publication loops `for k, v in D.items(): update_context(ctx, k, v)` of node method *qn* whose D is
    the processor's `_last_created_sequences`; decided on the normal form (helpers inlined, locals
    substituted) with the CFG:
      (a) inside the loop, an iteration that does not write (k, v) went through a branch that guarantees
          `k == self.context_key` (the node's own result key) - nothing else may be skipped;
      (b) from `self.processor.process(...)` every path to the normal return enters the loop unless a branch
          guarantees that nothing was materialised (D is None / not a dict / empty);
      (c) the context written is the one returned in the Payload.
    Returns the number of publication loops found."""
    raw = repo.func(NODES, qn)
    nf = nfunc(repo, NODES, qn, copyprop="all")
    g = CFG(nf, may_raise=lambda p: set())
    exits = {g.ret_exit, g.exc_exit, g.base_exit}
    found = 0
    for lp in [n for n in walk_no_nested(nf) if isinstance(n, ast.For)]:
        # the traversal: (key, sequence) pairs of D, or its keys with the sequence read as D[key]
        m = match("_D_.items()", lp.iter)
        t = lp.target
        if m and isinstance(t, ast.Tuple) and len(t.elts) == 2 and all(isinstance(e, ast.Name) for e in t.elts):
            D = m["_D_"]
            k, v = t.elts[0].id, t.elts[1].id
        else:
            m = kany(["_D_.keys()", "list(_D_)", "list(_D_.keys())", "tuple(_D_)"], lp.iter)
            D = m["_D_"] if m else lp.iter
            if not isinstance(t, ast.Name):
                continue
            k, v = t.id, f"{_u(D)}[{t.id}]"
        if not any(_reads_created(x) for x in _defs(nf, D)):
            continue
        found += 1
        dtxt = _u(D)
        writes = [c for c, _e in find(lp, f"_O_.update_context(_CTX_, {k}, {v})")]
        line = getattr(lp, "lineno", raw.lineno)
        R.check(bool(writes), rule, NODES, qn, "update_context(context, key, value) for the pairs of processor._last_created_sequences", f"the loop over `{dtxt}.items()` never writes the (key, sequence) pair into the context as it is", line)
        if not writes:
            continue
        w_nodes = {nid for c in writes for nid in g.nodes_for(stmt_of(c))}
        lp_nodes = set(g.nodes_for(lp))

        def own_key(e: ast.AST) -> Optional[bool]:
            if match(f"{k} == self.context_key", e) or match(f"self.context_key == {k}", e):
                return True
            if match(f"{k} != self.context_key", e) or match(f"self.context_key != {k}", e):
                return False
            return None

        skip_ok = {(n.id, lab) for n in g.nodes if n.kind in ("if", "while") and n.part is not None for lab in _edges(n.part, own_key)}
        starts = [tgt for nid in lp_nodes for tgt, lab in g.succ[nid] if lab == "T" and tgt not in w_nodes]
        seen = g.reach(starts, blocked=w_nodes, blocked_edges=skip_ok) if starts else {}
        bad = [x for x in sorted(lp_nodes) + sorted(exits) if x in seen]
        path = g.path_to(seen, bad[0]) if bad else []
        R.check(not bad, rule, NODES, qn, "every (key, sequence) pair is written; only the node's own context key is skipped", f"a materialised <var>_values sequence is skipped for a reason other than being the node's own context key (a stale or missing value stays in the context)", line, path)

        # (b) the loop is entered after process() unless nothing was materialised
        pcalls = [c for c in calls_in(nf) if match("self.processor.process", c.func)]
        if not pcalls:
            raise AnalysisError(f"{qn}: call of self.processor.process not found")

        def nothing(e: ast.AST) -> Optional[bool]:
            if match("isinstance(_X_, dict)", e) and _u(e.args[0]) == dtxt:
                return False
            if (match("_X_ is None", e) or match("_X_ == None", e)) and _u(e.left) == dtxt:
                return True
            if (match("_X_ is not None", e) or match("_X_ != None", e)) and _u(e.left) == dtxt:
                return False
            if _u(e) == dtxt:
                return False
            if match(f"hasattr(self.processor, '{CREATED[0]}')", e):
                return False
            return None

        none_ok = {(n.id, lab) for n in g.nodes if n.kind in ("if", "while") and n.part is not None for lab in _edges(n.part, nothing)}
        p_nodes = [nid for c in pcalls for nid in g.nodes_for(stmt_of(c))]
        seen = g.reach(p_nodes, blocked=lp_nodes, blocked_edges=none_ok)
        path = g.path_to(seen, g.ret_exit) if g.ret_exit in seen else []
        R.check(g.ret_exit not in seen, rule, NODES, qn, "after process() the publication loop is entered unless nothing was materialised", "the node can return without publishing the materialised sequences", line, path)

        # (c) the context written is the one handed on
        # (the returned value is expanded to its reaching definitions: `out = Payload(..); return out` is the same return)
        FN = Flow(nf)
        rx = [x for r_ in walk_no_nested(FN.fn) if isinstance(r_, ast.Return) and r_.value is not None for x in FN.expand(r_.value, FN.nid(r_))]
        pms = [m_ for m_ in (kany(["Payload(_A_, _C_)", "Payload(_A_, context=_C_)", "Payload(data=_A_, context=_C_)"], x) for x in rx) if m_ is not None]
        lp_fn = next((n for n in walk_no_nested(FN.fn) if isinstance(n, ast.For) and getattr(n, "lineno", None) == getattr(lp, "lineno", None) and _u(n.iter) == _u(lp.iter)), None)
        w_fn = [c for c, _e in find(lp_fn, f"_O_.update_context(_CTX_, {k}, {v})")] if lp_fn is not None else []
        wctx = {ast.dump(x) for c in w_fn for x in FN.expand(c.args[0], FN.nid(c))}
        ok = bool(pms) and bool(wctx) and all({ast.dump(m_["_C_"])} == wctx for m_ in pms)
        R.check(ok, rule, NODES, qn, "the sequences are written into the context returned in the Payload", "the materialised sequences are written into a context other than the one passed downstream", line)
    return found


# ---------------------------------------------------------------------------------------------------------
# D3 (the element's parameter names): which parameters of the wrapped processor the sweep knows about
# ---------------------------------------------------------------------------------------------------------

PARAM_KINDS = ("POSITIONAL_ONLY", "POSITIONAL_OR_KEYWORD", "VAR_POSITIONAL", "KEYWORD_ONLY", "VAR_KEYWORD")
KEYWORD_KINDS = ("POSITIONAL_OR_KEYWORD", "KEYWORD_ONLY")  # what `element(**call_params)` can deliver
RECEIVER_NAMES = {"cls", "self", "data"}  # the receiver and the data argument: never parameters of the element
_BUILTIN_CONTAINERS = {"set", "frozenset", "dict", "list", "tuple", "sorted"}


def _kind_const(e: ast.AST) -> Optional[str]:
    d = dotted_name(e) if isinstance(e, (ast.Attribute, ast.Name)) else None
    last = d.split(".")[-1] if d else None
    return last if last in PARAM_KINDS else None


def _const_strings(e: ast.AST) -> Optional[Set[str]]:
    """The strings of a literal collection of strings (set / tuple / list display, optionally wrapped in set() ...)."""
    m = kany(["set(_X_)", "frozenset(_X_)", "tuple(_X_)", "list(_X_)"], e)
    if m:
        e = m["_X_"]
    if isinstance(e, (ast.Set, ast.Tuple, ast.List)) and all(isinstance(x, ast.Constant) and isinstance(x.value, str) for x in e.elts):
        return {x.value for x in e.elts}
    if isinstance(e, ast.Constant) and isinstance(e.value, str):
        return {e.value}
    return None


def _tri_not(v: Optional[bool]) -> Optional[bool]:
    return None if v is None else not v


def _tri_all(vs: List[Optional[bool]]) -> Optional[bool]:
    return False if any(v is False for v in vs) else True if all(v is True for v in vs) else None


class _ParamEnv:
    """One abstract signature parameter: of kind *kind*, not named like the receiver / data argument, not computed by
    an expression, with (*empty* True) or without a default.  None for a field means unknown."""

    def __init__(self, pname: str, name_alias: Optional[str] = None, kind: Optional[str] = None, empty: Optional[bool] = None, bound_ok=None):
        self.p, self.alias, self.kind, self.empty, self.bound_ok = pname, name_alias, kind, empty, bound_ok

    def is_name(self, e: ast.AST) -> bool:
        return kmatch(f"{self.p}.name", e) is not None or (self.alias is not None and isinstance(e, ast.Name) and e.id == self.alias)

    def ev(self, e: ast.AST) -> Optional[bool]:
        """Three-valued value of test *e* for this parameter."""
        if isinstance(e, ast.UnaryOp) and isinstance(e.op, ast.Not):
            return _tri_not(self.ev(e.operand))
        if isinstance(e, ast.BoolOp):
            vs = [self.ev(v) for v in e.values]
            return _tri_all(vs) if isinstance(e.op, ast.And) else _tri_not(_tri_all([_tri_not(v) for v in vs]))
        if not (isinstance(e, ast.Compare) and len(e.ops) == 1):
            return None
        op, l, r = e.ops[0], e.left, e.comparators[0]
        if isinstance(r, ast.IfExp):  # the same answer whichever operand is chosen
            vs = {self.ev(ast.Compare(left=l, ops=[op], comparators=[arm])) for arm in (r.body, r.orelse)}
            return vs.pop() if len(vs) == 1 else None
        neg = isinstance(op, (ast.NotIn, ast.IsNot, ast.NotEq))
        out: Optional[bool] = None
        if isinstance(op, (ast.In, ast.NotIn)):
            if kmatch(f"{self.p}.kind", l) and isinstance(r, (ast.Tuple, ast.List, ast.Set)) and self.kind is not None:
                ks = [_kind_const(x) for x in r.elts]
                out = None if any(k is None for k in ks) else self.kind in ks
            elif self.is_name(l):
                names = _const_strings(r)
                if names is not None and names <= RECEIVER_NAMES:
                    out = False
                elif self.bound_ok is not None and self.bound_ok(r):
                    out = False
        elif isinstance(op, (ast.Is, ast.IsNot, ast.Eq, ast.NotEq)):
            for a, b in ((l, r), (r, l)):
                if kmatch(f"{self.p}.kind", a) and _kind_const(b) is not None and self.kind is not None:
                    out = self.kind == _kind_const(b)
                elif self.is_name(a) and isinstance(b, ast.Constant) and b.value in RECEIVER_NAMES and isinstance(op, (ast.Eq, ast.NotEq)):
                    out = False
                elif kmatch(f"{self.p}.default", a) and (dotted_name(b) or "").split(".")[-1] in ("empty", "_empty") and self.empty is not None:
                    out = self.empty
        return _tri_not(out) if neg else out

    def ev_at(self, F: "Flow", e: ast.AST, at: int) -> Optional[bool]:
        v = self.ev(e)
        if v is not None:
            return v
        try:
            vs = {self.ev(x) for x in F.expand(e, at)}
        except AnalysisError:
            return None
        return vs.pop() if len(vs) == 1 else None

    def decided_edges(self, F: "Flow", inside: Set[int]) -> Tuple[Set[Tuple[int, str]], List[Tuple[int, bool]]]:
        """Branch edges (of tests inside *inside*) that this parameter cannot take, and the tests that were decided."""
        be: Set[Tuple[int, str]] = set()
        decided: List[Tuple[int, bool]] = []
        for n in F.g.nodes:
            if n.id in inside and n.kind in ("if", "while") and n.part is not None:
                v = self.ev_at(F, n.part, n.id)
                if v is not None:
                    be.add((n.id, "F" if v else "T"))
                    decided.append((n.id, v))
        return be, decided


def _loop_nodes(F: "Flow", lp: ast.For) -> Set[int]:
    return {nid for x in ast.walk(lp) if isinstance(x, ast.stmt) for nid in F.g.nodes_for(x)}


def _split_ifexp(e: ast.AST, conds: Tuple = ()) -> List[Tuple[ast.AST, Tuple]]:
    """Alternatives of an expression that contains conditional expressions anywhere, with the (test, 'T'|'F')
    choices leading to each."""
    idx = next((i for i, x in enumerate(ast.walk(e)) if isinstance(x, ast.IfExp)), None)
    if idx is None:
        return [(e, conds)]
    out: List[Tuple[ast.AST, Tuple]] = []
    for lab in ("T", "F"):
        c = clone(e)
        target = list(ast.walk(c))[idx]
        arm = target.body if lab == "T" else target.orelse

        class T(ast.NodeTransformer):
            def visit_IfExp(self, n):
                return arm if n is target else self.generic_visit(n)

        out += _split_ifexp(T().visit(c), conds + ((target.test, lab),))
    return out


def _fold_tuple_index(e: ast.AST) -> ast.AST:
    """`(a, b)[1]` is `b` (what a tuple-unpacking assignment of a returned pair binds)."""
    class T(ast.NodeTransformer):
        def visit_Subscript(self, n):
            self.generic_visit(n)
            if isinstance(n.value, (ast.Tuple, ast.List)) and isinstance(n.slice, ast.Constant) and isinstance(n.slice.value, int) \
                    and not any(isinstance(x, ast.Starred) for x in n.value.elts) and -len(n.value.elts) <= n.slice.value < len(n.value.elts):
                return n.value.elts[n.slice.value]
            return n
    return T().visit(e) if any(isinstance(x, ast.Subscript) for x in ast.walk(e)) else e


def _plain(text: str) -> str:
    """Text of a normal-form construct without the inliner's `_i<N>_` prefixes of helper locals."""
    import re
    return re.sub(r"\b_i\d+_", "", text)


def _function_at(repo: Repo, rel: str, line: int, default: str) -> str:
    """Qualified name of the innermost function of module *rel* that contains *line*."""
    best: Optional[ast.AST] = None
    for n in ast.walk(repo.module(rel).tree):
        if isinstance(n, FuncNode) and n.lineno <= line <= (getattr(n, "end_lineno", None) or n.lineno):
            if best is None or n.lineno >= best.lineno:
                best = n
    return qualname_of(best) if best is not None else default


def _element_parameters(repo: Repo, R: Report, allowed_attrs: Dict[str, str]) -> None:
    """The names the sweep treats as parameters of the wrapped processor - the set `call_params` is filtered to
    (`S._allowed_names`) and the names whose provided values are selected (`base_kwargs_filter`) - decided on the
    normal form of the factory (helpers inlined) with value expansion and the CFG:
      (a) they are selected from the signature of the method the sweep really calls (source: _get_data, operation /
          probe: _process_logic);
      (b) a parameter is selected exactly when it can be passed by keyword (POSITIONAL_OR_KEYWORD, KEYWORD_ONLY); the
          only names left out are the receiver and the data argument;
      (c) every class' `_allowed_names` is the set of names of that selection;
      (d) every selected parameter that is not computed by an expression is among the names whose provided (node /
          context) value is handed to the element."""
    rule = R.rule("C03-D3-element-parameters", "the parameter names the sweep filters call_params to and selects provided values for are exactly the keyword-passable parameters (POSITIONAL_OR_KEYWORD and KEYWORD_ONLY) of the method the sweep calls (_get_data / _process_logic), minus the receiver and the data argument; every one of them that is not computed by an expression is looked up in the provided parameters and declared by the generated signature", 12)
    raw = repo.func(SWEEP, CREATE)
    F = Flow(nfunc(repo, SWEEP, CREATE, keep=("_build_signature",), copyprop="all"), post=_fold_tuple_index)
    g = F.g
    exits = {g.ret_exit, g.exc_exit, g.base_exit}
    cache: Dict[str, bool] = {}

    def a_source(e: ast.AST) -> Optional[bool]:
        if kmatch("element_kind == 'DataSource'", e) or kmatch("'DataSource' == element_kind", e):
            return True
        if kmatch("element_kind != 'DataSource'", e) or kmatch("'DataSource' != element_kind", e):
            return False
        return None

    def a_other(e: ast.AST) -> Optional[bool]:
        return _tri_not(a_source(e))

    E_src, E_oth = F.edges(a_source), F.edges(a_other)
    if not E_src or not E_oth:
        raise AnalysisError("create: the branches on element_kind == 'DataSource' were not found")
    # the two kinds of wrapped method: (label, impossible branch edges, the atom that excludes an arm, method)
    SCEN = (("source", frozenset(E_oth), a_other, "_get_data"), ("operation / probe", frozenset(E_src), a_source, "_process_logic"))

    def signature_ok(it: ast.AST, at: int, line: int, scen) -> None:
        """*it* (evaluated at node *at*) iterates the parameters of the signature of the method the sweep calls."""
        label, be, anti, meth = scen
        leaves: List[ast.AST] = []
        for x in F.expand(it, at, be):
            for leaf, conds in _split_ifexp(x):
                if any(lab in _edges(t, anti) for t, lab in conds):
                    continue  # an arm taken for the other kind of element only
                leaves.append(leaf)
        pats = [f"{pre}signature(element.{meth}).parameters.{acc}()" for pre in ("inspect.", "") for acc in ("values", "items")]
        bad = [x for x in leaves if kany(pats, x) is None]
        R.check(bool(leaves) and not bad, rule, SWEEP, CREATE, f"{label}: parameters are read from inspect.signature(element.{meth})", f"`{_u(bad[0])[:100]}`: the parameter names of a {label} sweep are not taken from the signature of the method the sweep calls (element.{meth})" if bad else f"no signature found for a {label} sweep", line)

    def selection_ok(L: ast.AST, at: int, scen, elt_name: bool = False) -> bool:
        """*L* (an expression expanded for one kind of element) is the selection of the keyword-passable parameters;
        reports what is wrong with it."""
        key = ast.dump(L) + str(elt_name) + scen[0]
        if key in cache:
            return cache[key]
        cache[key] = True
        line = raw.lineno
        m = kany(["list(_X_)", "tuple(_X_)"], L)
        if m and isinstance(m["_X_"], (ast.ListComp, ast.GeneratorExp)):
            L = m["_X_"]
        if isinstance(L, ast.Name) and L.id.startswith("__mutated_") and not elt_name:
            lst = L.id[len("__mutated_"):-2]
            sites = [s for s, _r in mutation_sites(F.fn, {lst})]
            loops = {id(a): a for s in sites for a in ancestors(s) if isinstance(a, ast.For)}
            lp = next((a for a in loops.values() if all(any(b is a for b in ancestors(s)) for s in sites)), None)
            inits = [F._def_value(lst, dn) for dn in (F.rdefs(lst, F.nid(lp))[0] if lp is not None else [])]
            if lp is None or not inits or not all(v is not None and kany(["[]", "list()"], v) is not None for v in inits):
                raise AnalysisError(f"create: the loop that fills `{lst}` from the element's signature was not found")
            line = lp.lineno
            t = lp.target
            alias = None
            its = F.expand(lp.iter, F.nid(lp))
            if isinstance(t, ast.Name):
                ms_ = [kmatch("_SIG_.parameters.values()", x) for x in its]
                P = t.id
            elif isinstance(t, ast.Tuple) and len(t.elts) == 2 and all(isinstance(x, ast.Name) for x in t.elts):
                ms_ = [kmatch("_SIG_.parameters.items()", x) for x in its]
                alias, P = t.elts[0].id, t.elts[1].id
            else:
                ms_ = []
            if not ms_ or any(m_ is None for m_ in ms_):
                raise AnalysisError(f"create: `{_u(lp.iter)[:80]}` is not an iteration over <signature>.parameters")
            signature_ok(lp.iter, F.nid(lp), line, scen)
            good_sites = [s for s in sites if kmatch(f"{lst}.append({P})", s) is not None]
            R.check(len(good_sites) == len(sites), rule, SWEEP, CREATE, "the selected parameters are the signature's own Parameter objects", f"`{_u(next(s for s in sites if s not in good_sites))[:100]}` puts something other than the signature's parameter into the selection" if len(good_sites) != len(sites) else "", line)
            inside = _loop_nodes(F, lp)
            c_nodes = {F.nid(s) for s in good_sites}
            body_start = [t_ for t_, l_ in g.succ[F.nid(lp)] if l_ == "T"]
            for kind in PARAM_KINDS:
                env = _ParamEnv(P, alias, kind)
                be, decided = env.decided_edges(F, inside)
                kind_tests = [g.nodes[i] for i, _v in decided if f"{P}.kind" in _u(g.nodes[i].part)]
                where = kind_tests[0] if kind_tests else None
                if kind in KEYWORD_KINDS:
                    seen = _reach(g, body_start, c_nodes, be)
                    bad = [x for x in [F.nid(lp)] + sorted(exits) if x in seen]
                    R.check(bool(body_start) and not bad, rule, SWEEP, _function_at(repo, SWEEP, where.line if where is not None else line, CREATE), f"a {kind} parameter of the element is selected", f"`{_plain(where.text() if where is not None else _u(lp)[:80])}`: a {kind} parameter of the wrapped processor is left out of the element's parameter names - its non-swept value given in the node parameters / context is never passed on and every element is computed with the processor's default instead", where.line if where is not None else line, g.path_to(seen, bad[0]) if bad else [])
                else:
                    seen = _reach(g, body_start, None, be)
                    bad = [x for x in sorted(c_nodes) if x in seen]
                    R.check(not bad, rule, SWEEP, _function_at(repo, SWEEP, where.line if where is not None else line, CREATE), f"a {kind} parameter of the element is not selected", f"`{_plain(where.text() if where is not None else _u(lp)[:80])}`: a {kind} parameter (which `element(**call_params)` cannot deliver by name) is treated as a parameter of the wrapped processor", where.line if where is not None else line, g.path_to(seen, bad[0]) if bad else [])
            return True
        if isinstance(L, (ast.ListComp, ast.GeneratorExp, ast.SetComp)) and len(L.generators) == 1 and isinstance(L.generators[0].target, ast.Name):
            gen = L.generators[0]
            P = gen.target.id
            where = None
            line = getattr(L, "lineno", None) or raw.lineno
            m = kmatch("_SIG_.parameters.values()", gen.iter)
            if not m:
                raise AnalysisError(f"create: `{_u(gen.iter)[:80]}` is not an iteration over <signature>.parameters")
            signature_ok(gen.iter, at, line, scen)
            want = f"{P}.name" if elt_name else P
            R.check(_u(L.elt) == want, rule, SWEEP, CREATE, "the selected parameters are the signature's own Parameter objects", f"`{_plain(_u(L))[:100]}` selects something other than the signature's parameters", line)
            for kind in PARAM_KINDS:
                env = _ParamEnv(P, None, kind)
                v = _tri_all([env.ev(c) for c in gen.ifs])
                if kind in KEYWORD_KINDS:
                    R.check(v is True, rule, SWEEP, _function_at(repo, SWEEP, where.line if where is not None else line, CREATE), f"a {kind} parameter of the element is selected", f"`{_plain(_u(L))[:120]}`: a {kind} parameter of the wrapped processor is left out of the element's parameter names - its non-swept value given in the node parameters / context is never passed on and every element is computed with the processor's default instead", line)
                else:
                    R.check(v is False, rule, SWEEP, _function_at(repo, SWEEP, where.line if where is not None else line, CREATE), f"a {kind} parameter of the element is not selected", f"`{_plain(_u(L))[:120]}`: a {kind} parameter (which `element(**call_params)` cannot deliver by name) is treated as a parameter of the wrapped processor", line)
            return True
        cache[key] = False
        return False

    # (c) S._allowed_names of every generated class
    # *allowed_attrs*: generated class -> the attribute its sweep body filters call_params to (found by that read)
    def binds(c: ast.ClassDef) -> List[ast.stmt]:
        a_ = allowed_attrs.get(c.name)
        return [st for st in c.body if isinstance(st, (ast.Assign, ast.AnnAssign)) and getattr(st, "value", None) is not None
                and any(isinstance(t, ast.Name) and t.id == a_ for t in (st.targets if isinstance(st, ast.Assign) else [st.target]))]

    classes = [c for c in ast.walk(F.fn) if isinstance(c, ast.ClassDef) and c.name in allowed_attrs and binds(c)]
    if len(classes) != 3:
        raise AnalysisError(f"{len(classes)} generated classes bind the attribute their sweep body filters the element's parameters to (3 confirmed by reading)")
    for c in classes:
        st = binds(c)[0]
        ids = g.nodes_for(c)
        if not ids:
            raise AnalysisError(f"create: no CFG node for class {c.name}")
        ok, n_live = True, 0
        for scen in SCEN:
            if ids[0] not in F.reachable(scen[1]):
                continue  # this class is not built for that kind of element
            n_live += 1
            xs = F.expand(st.value, ids[0], scen[1])
            ok = ok and bool(xs)
            for x in xs:
                m = kany(["{_q_.name for _q_ in _L_}", "set((_q_.name for _q_ in _L_))", "set([_q_.name for _q_ in _L_])", "frozenset((_q_.name for _q_ in _L_))", "frozenset({_q_.name for _q_ in _L_})"], x)
                if m and selection_ok(m["_L_"], ids[0], scen):
                    continue
                inner = kany(["set(_X_)", "frozenset(_X_)"], x)
                if selection_ok(inner["_X_"] if inner else x, ids[0], scen, elt_name=True):
                    continue
                ok = False
        R.check(ok and n_live > 0, rule, SWEEP, f"{CREATE}.{c.name}", f"{allowed_attrs[c.name]} = the names of the selected parameters", f"`{_u(st)}`: the names call_params are filtered to are not the names of the element's keyword-passable parameters", getattr(st, "lineno", raw.lineno))

    # (d) the names whose provided values are selected
    bfs: Set[str] = set()
    for qn, f in variant_bodies(repo):
        for comp in ast.walk(f):
            if isinstance(comp, ast.DictComp) and len(comp.generators) == 1 and isinstance(comp.generators[0].iter, ast.Name):
                kw = f.args.kwarg.arg if f.args.kwarg else "kwargs"
                if kmatch(f"{{_n_: {kw}[_n_] for _n_ in _BF_ if _ANY_}}", comp):
                    bfs.add(comp.generators[0].iter.id)
    if len(bfs) != 1:
        raise AnalysisError(f"create: the name set the provided kwargs are selected by was not found once ({sorted(bfs)})")
    bf = bfs.pop()
    bf_nodes = F.defnodes.get(bf, [])
    if len(bf_nodes) != 1:
        raise AnalysisError(f"create: `{bf}` is not defined exactly once")
    bf_val = F._def_value(bf, bf_nodes[0])

    def components(e: ast.AST) -> Optional[List[ast.AST]]:
        """The collections whose union *e* is."""
        if isinstance(e, ast.BinOp) and isinstance(e.op, ast.BitOr):
            l, r = components(e.left), components(e.right)
            return None if l is None or r is None else l + r
        m = kany(["_A_.union(_B_)"], e)
        if m:
            l, r = components(m["_A_"]), components(m["_B_"])
            return None if l is None or r is None else l + r
        m = kany(["set(_X_)", "frozenset(_X_)", "list(_X_)", "tuple(_X_)", "_X_.keys()"], e)
        if m:
            return components(m["_X_"])
        if kany(["set()", "frozenset()", "list()", "tuple()", "[]", "()"], e) is not None:
            return []
        if isinstance(e, ast.Set) and e.elts and all(isinstance(x, ast.Starred) for x in e.elts):
            out: List[ast.AST] = []
            for x in e.elts:
                c_ = components(x.value)
                if c_ is None:
                    return None
                out += c_
            return out
        if isinstance(e, ast.BinOp) and isinstance(e.op, ast.Add):  # concatenation of name lists
            l, r = components(e.left), components(e.right)
            return None if l is None or r is None else l + r
        if isinstance(e, (ast.List, ast.Tuple)) and e.elts and all(isinstance(x, ast.Starred) for x in e.elts):
            out2: List[ast.AST] = []
            for x in e.elts:
                c_ = components(x.value)
                if c_ is None:
                    return None
                out2 += c_
            return out2
        if isinstance(e, (ast.Name, ast.ListComp, ast.SetComp, ast.DictComp, ast.GeneratorExp)) or (isinstance(e, ast.Attribute) and dotted_name(e) is not None):
            return [e]
        return None

    def bound_ok(e: ast.AST) -> bool:
        """*e* is the set of names computed by expressions (built from the factory's parametric_expressions only)."""
        try:
            xs = F.expand(e, bf_nodes[0]) if any(isinstance(x, ast.Name) and x.id in F.defnodes for x in ast.walk(e)) else [e]
        except AnalysisError:
            return False
        ok_names = {"parametric_expressions"} | _BUILTIN_CONTAINERS
        return bool(xs) and all({n.id for n in ast.walk(x) if isinstance(n, ast.Name)} <= ok_names and any(isinstance(n, ast.Name) and n.id == "parametric_expressions" for n in ast.walk(x)) for x in xs)

    line = getattr(g.nodes[bf_nodes[0]].ast, "lineno", raw.lineno)
    bf_dumps: Set[str] = set()
    for scen in SCEN:
        comps: List[ast.AST] = []
        for x in (F.expand(bf_val, bf_nodes[0], scen[1]) if bf_val is not None else []):
            c_ = components(x)
            if c_ is None:
                raise AnalysisError(f"create: `{bf} = {_u(x)[:100]}` is not a union of name collections")
            comps += c_
        if not comps:
            raise AnalysisError(f"create: definition of `{bf}` not understood")
        bf_dumps |= {ast.dump(c_) for c_ in comps}
        containers = [c_.id[len("__mutated_"):-2] for c_ in comps if isinstance(c_, ast.Name) and c_.id.startswith("__mutated_")]
        others = [c_ for c_ in comps if not (isinstance(c_, ast.Name) and c_.id.startswith("__mutated_"))]
        if containers and not others:
            sites = [s for s, _r in mutation_sites(F.fn, set(containers))]
            lp = next((a for s in sites for a in ancestors(s) if isinstance(a, ast.For) and isinstance(a.target, ast.Name)), None)
            if lp is None:
                raise AnalysisError(f"create: the loop that sorts the element's parameters into {containers} was not found")
            P = lp.target.id
            its = F.expand(lp.iter, F.nid(lp), scen[1])
            ok = bool(its) and all(selection_ok(x, F.nid(lp), scen) for x in its)
            R.check(ok, rule, SWEEP, CREATE, "the provided-parameter names are sorted out of the selected parameters", f"`{_u(lp)[:80]}`: the names whose provided values are handed to the element are not taken from the element's selected parameters", lp.lineno)
            good = [s for s in sites if any(a is lp for a in ancestors(s)) and any(kany([f"{c_}.append({P}.name)", f"{c_}.add({P}.name)", f"{c_}.setdefault({P}.name, _ANY_)"], s) is not None for c_ in containers)
                    or (isinstance(s, (ast.Assign, ast.AnnAssign)) and any(a is lp for a in ancestors(s)) and any(kmatch(f"{c_}[{P}.name]", t) is not None for c_ in containers for t in (s.targets if isinstance(s, ast.Assign) else [s.target])))]
            inside = _loop_nodes(F, lp)
            env = _ParamEnv(P, None, None, None, bound_ok)
            be, _dec = env.decided_edges(F, inside)
            body_start = [t_ for t_, l_ in g.succ[F.nid(lp)] if l_ == "T"]
            seen = _reach(g, body_start, {F.nid(s) for s in good}, be)
            bad = [x for x in [F.nid(lp)] + sorted(exits) if x in seen]
            R.check(bool(good) and bool(body_start) and not bad, rule, SWEEP, CREATE, "every selected parameter that no expression computes is recorded as a required or optional external parameter", f"a parameter of the wrapped processor that no expression computes is left out of `{bf}`: its value given in the node parameters / context is not handed to the element and the processor's default is used", lp.lineno, g.path_to(seen, bad[0]) if bad else [])
        elif others and not containers:
            for empty in (True, False):
                hit = False
                for c_ in others:
                    if not (isinstance(c_, (ast.ListComp, ast.SetComp, ast.DictComp, ast.GeneratorExp)) and len(c_.generators) == 1 and isinstance(c_.generators[0].target, ast.Name)):
                        raise AnalysisError(f"create: component `{_u(c_)[:80]}` of `{bf}` not understood")
                    gen = c_.generators[0]
                    P = gen.target.id
                    elt = c_.key if isinstance(c_, ast.DictComp) else c_.elt
                    env = _ParamEnv(P, None, None, empty, bound_ok)
                    if _u(elt) == f"{P}.name" and selection_ok(gen.iter, bf_nodes[0], scen) and _tri_all([env.ev(t) for t in gen.ifs]) is True:
                        hit = True
                R.check(hit, rule, SWEEP, CREATE, f"every selected parameter {'without' if empty else 'with'} a default that no expression computes is among the provided-parameter names", f"`{bf} = {_u(bf_val)[:100]}`: a parameter of the wrapped processor {'without' if empty else 'with'} a default that no expression computes is left out: its value given in the node parameters / context is not handed to the element", line)
        else:
            raise AnalysisError(f"create: `{bf}` mixes filled containers and comprehensions (shape not analysed)")

    # (e) the same names are declared by the generated method's signature (that is where the node learns which
    #     parameters to fetch from its configuration / the context)
    sig_calls = [c for c in walk_no_nested(F.fn) if isinstance(c, ast.Call) and call_name(c) == "_build_signature"]
    if len(sig_calls) != 3:
        raise AnalysisError(f"create: {len(sig_calls)} calls of _build_signature (3 confirmed by reading)")
    for c in sig_calls:
        req, opt = kwarg(c, "required_parameters"), kwarg(c, "optional_parameters")
        dumps: Optional[Set[str]] = set()
        for e_ in (req, opt):
            for x in (F.expand(e_, F.nid(c)) if e_ is not None else [None]):
                c_ = components(x) if x is not None else None
                if c_ is None or dumps is None:
                    dumps = None
                else:
                    dumps |= {ast.dump(y) for y in c_}
        R.check(dumps is not None and dumps == bf_dumps, rule, SWEEP, CREATE, "the generated signature declares the required and optional external parameters", f"`{_u(c)[:140]}`: the parameters declared by the generated signature are not the ones whose provided values are handed to the element (`{bf}`): the node does not fetch a declared-away parameter and the processor's default is used", c.lineno)

    # (f) the same names are advertised by the generated class' own get_processing_parameter_names() - the hook the
    #     pipeline node (and the IO adapter for sources) asks for the names it resolves from the node's `parameters:` block
    #     and the context.  A class that overrides the hook answers with its own list: a name the body selects a provided
    #     value for (`bf`) but the list leaves out is never fetched, kwargs never holds it, and every element is computed
    #     with the processor's default - computed > node parameters > defaults degenerates to computed > defaults.
    rule_f = R.rule("C03-D3-advertised-parameters", "a generated sweep class that answers get_processing_parameter_names() itself (the hook the pipeline node reads the names it resolves from the node parameters / the context from) lists every parameter of the wrapped processor whose provided value its body hands to the element - the required and the optional non-computed ones: what the node fetches and what the body looks up in kwargs are the same names", 3)
    HOOK = "get_processing_parameter_names"
    raw_classes = {c.name: c for c in ast.walk(raw) if isinstance(c, ast.ClassDef)}
    for qn, f in variant_bodies(repo):
        cd_raw = parent(f)
        cd = next((c for c in ast.walk(F.fn) if isinstance(c, ast.ClassDef) and c.name == getattr(cd_raw, "name", None)), None)
        ids = g.nodes_for(cd) if cd is not None else []
        if cd is None or not ids:
            raise AnalysisError(f"create: generated class of {qn} not found in the normal form")
        meth = next((m_ for m_ in cd_raw.body if isinstance(m_, FuncNode) and m_.name == HOOK), None)
        if meth is None:
            R.ok(rule_f, SWEEP, f"{CREATE}.{cd.name}", "the hook is inherited: the names come from the generated signature (decided above)")
            continue
        S_ = meth.args.args[0].arg if meth.args.args else "cls"
        FK = Flow(normalize(repo, repo.module(SWEEP), meth, copyprop="all", loops=True))
        binds_ = _class_bindings(cd)

        def leaves(e: ast.AST, at: Optional[int], depth: int = 0) -> Optional[Set[str]]:
            """dumps of the name collections *e* is the concatenation / union of, class attributes and factory locals resolved
            to what the factory binds them to when the class is made"""
            cs = components(e)
            if cs is None or depth > 6:
                return None
            out_: Set[str] = set()
            for y in cs:
                a_ = _self_attr(y, S_)
                if a_ is not None and a_ in binds_:
                    inner = [z for z in F.expand(binds_[a_], ids[0])]
                elif isinstance(y, ast.Name) and y.id in F.defnodes and not y.id.startswith("__mutated_") and depth < 6 and at is None:
                    inner = [z for z in F.expand(y, ids[0])]
                    if len(inner) == 1 and ast.dump(inner[0]) == ast.dump(y):
                        out_.add(ast.dump(y))
                        continue
                else:
                    out_.add(ast.dump(y))
                    continue
                for z in inner:
                    sub = leaves(z, None, depth + 1) if not (isinstance(z, ast.Name) and ast.dump(z) == ast.dump(y)) else {ast.dump(z)}
                    if sub is None:
                        return None
                    out_ |= sub
            return out_

        adv: Optional[Set[str]] = set()
        rets_ = [r_ for r_ in walk_no_nested(FK.fn) if isinstance(r_, ast.Return) and r_.value is not None]
        for r_ in rets_:
            for x in FK.expand(r_.value, FK.nid(r_)):
                got = leaves(x, None)
                adv = None if got is None or adv is None else adv | got
        if adv is None or not rets_:
            raise AnalysisError(f"{CREATE}.{cd.name}.{HOOK}: the advertised names are not a concatenation / union of name collections of the factory")
        missing = bf_dumps - adv
        R.check(not missing, rule_f, SWEEP, f"{CREATE}.{cd.name}.{HOOK}", f"advertises every name of `{bf}` (the parameters whose provided values are handed to the element)",
                f"`{_u(rets_[0])[:100]}`: the names {cd.name} advertises to the pipeline node leave out parameters of the wrapped processor whose provided value the sweep body selects from kwargs (`{bf}`): the node never fetches them from the node parameters / the context, so the configured value is dropped and every element is computed with the processor's own default (computed > node parameters > defaults degenerates to computed > defaults)", meth.lineno)



# ---------------------------------------------------------------------------------------------------------
# D5 (the declaration is kept): expanding a sweep block does not consume it
# ---------------------------------------------------------------------------------------------------------
_COPIES = {"dict", "list", "tuple", "set", "frozenset", "sorted", "OrderedDict", "collections.OrderedDict", "copy.copy", "copy", "MappingProxyType", "types.MappingProxyType"}
_DEEP = {"copy.deepcopy", "deepcopy"}
_OBJ_MUTATORS = {"append", "extend", "add", "update", "pop", "popitem", "setdefault", "clear", "remove", "insert", "discard", "sort", "reverse", "__setitem__", "__delitem__"}


def _declaration_kept(repo: Repo, R: Report) -> None:
    """The function that turns a node declaration with a derive.parameter_sweep block into the generated sweep class (found by
    its role: it hands the block to ParametricSweepFactory.create) receives the caller's configuration object - the loaded
    declaration, which every later Pipeline / inspection / graph built from the same configuration expands again.  Nothing
    reached from that parameter without a copy (the node mapping, its `derive` mapping, the sweep block, a variable spec) is
    modified in place: own = the caller's object or something read out of it, shallow = a one-level copy (its items are still the
    caller's objects), fresh = anything else; decided per mutation site on the reaching definitions of the receiver."""
    rule = R.rule("C03-D5-declaration-kept", "expanding a derive.parameter_sweep block leaves the node declaration it was given as it is: the function that hands the block to ParametricSweepFactory.create (and the private helpers inlined into it) stores into / pops from / updates only objects of its own (copies), never the caller's configuration mapping or a mapping read out of it - a declaration that was expanded once (pre-flight inspection, a first Pipeline) still declares the same sweep when it is expanded again", 1)
    mod = repo.module(PREP)
    entries = [n for n in mod.tree.body if isinstance(n, FuncNode) and n.args.args
               and any(isinstance(c, ast.Call) and (dotted_name(c.func) or "").endswith("ParametricSweepFactory.create") for c in ast.walk(n))]
    if not entries:
        raise AnalysisError(f"anchor function vanished: {PREP}: no module-level function hands a sweep block to ParametricSweepFactory.create")
    for fn in entries:
        qn = fn.name
        F = Flow(nfunc(repo, PREP, qn, copyprop="temps"))
        cfg = F.fn.args.args[0].arg
        memo: Dict[Tuple[str, int], str] = {}
        RANK = {"fresh": 0, "shallow": 1, "own": 2}

        def worst(ks: Iterable[str]) -> str:
            return max(list(ks) or ["fresh"], key=lambda k: RANK[k])

        def kind(e: Optional[ast.AST], at: int, depth: int = 0) -> str:
            if e is None or depth > 12:
                return "fresh"
            if isinstance(e, ast.Name):
                key = (e.id, at)
                if key in memo:
                    return memo[key]
                memo[key] = "fresh"  # cycles (loops): the other definitions decide
                ds, entry = F.rdefs(e.id, at)
                ks = ["own"] if (entry and e.id == cfg) else []
                for d in ds:
                    n = F.g.nodes[d]
                    if n.kind == "for" and isinstance(n.ast, ast.For):
                        it = n.ast.iter
                        m = kany(["_X_.items()", "_X_.values()", "list(_X_.items())", "list(_X_.values())", "enumerate(_X_)"], it)
                        base = kind(m["_X_"] if m else it, d, depth + 1)
                        ks.append("own" if base in ("own", "shallow") else "fresh")
                    else:
                        v = F._def_value(e.id, d)
                        ks.append(kind(v, d, depth + 1) if v is not None and not (isinstance(v, ast.Name) and v.id.startswith("__opaque_")) else "fresh")
                memo[key] = worst(ks)
                return memo[key]
            if isinstance(e, ast.NamedExpr):
                return kind(e.value, at, depth + 1)
            if isinstance(e, ast.Subscript):
                base = kind(e.value, at, depth + 1)
                if isinstance(e.slice, ast.Slice):
                    return "shallow" if base != "fresh" else "fresh"
                return "own" if base != "fresh" else "fresh"
            if isinstance(e, ast.BoolOp):
                return worst(kind(v, at, depth + 1) for v in e.values)
            if isinstance(e, ast.IfExp):
                return worst([kind(e.body, at, depth + 1), kind(e.orelse, at, depth + 1)])
            if isinstance(e, ast.Dict):
                return "shallow" if any(k is None and kind(v, at, depth + 1) != "fresh" for k, v in zip(e.keys, e.values)) else "fresh"
            if isinstance(e, ast.Call):
                fnm = dotted_name(e.func) or ""
                m = kany(["cast(_T_, _X_)", "typing.cast(_T_, _X_)"], e)
                if m:
                    return kind(m["_X_"], at, depth + 1)
                if fnm in _DEEP:
                    return "fresh"
                if isinstance(e.func, ast.Attribute) and e.func.attr in ("get", "pop", "setdefault") and e.args:
                    base = kind(e.func.value, at, depth + 1)
                    return worst(["own" if base != "fresh" else "fresh"] + [kind(a, at, depth + 1) for a in e.args[1:]])
                if isinstance(e.func, ast.Attribute) and e.func.attr == "copy" and not e.args:
                    return "shallow" if kind(e.func.value, at, depth + 1) != "fresh" else "fresh"
                if fnm in _COPIES and e.args:
                    return "shallow" if kind(e.args[0], at, depth + 1) != "fresh" else "fresh"
                return "fresh"
            return "fresh"

        bad: List[Tuple[ast.AST, ast.AST]] = []
        for n in walk_no_nested(F.fn):
            recvs: List[ast.AST] = []
            if isinstance(n, (ast.Assign, ast.AugAssign, ast.AnnAssign, ast.Delete)):
                tg = n.targets if isinstance(n, (ast.Assign, ast.Delete)) else [n.target]
                for t in tg:
                    for el in (ast.walk(t) if isinstance(t, (ast.Tuple, ast.List)) else [t]):
                        if isinstance(el, ast.Subscript):
                            recvs.append(el.value)
            elif isinstance(n, ast.Call) and isinstance(n.func, ast.Attribute) and n.func.attr in _OBJ_MUTATORS:
                recvs.append(n.func.value)
            for r_ in recvs:
                try:
                    at = F.nid(n)
                except AnalysisError:
                    continue
                if kind(r_, at) == "own":
                    bad.append((stmt_of(n) if not isinstance(n, ast.stmt) else n, r_))
        for st, r_ in bad:
            R.violation(rule, PREP, qn, _u(st)[:120], f"`{_u(st)[:100]}` modifies `{_u(r_)[:60]}` in place - the caller's node declaration (or a mapping read out of `{cfg}` without a copy): after the first expansion (pre-flight inspection, a first Pipeline, a canonical graph) the loaded configuration no longer declares the same sweep, and whatever is built from it next runs the plain wrapped processor / another sweep instead of one element per declared step", getattr(st, "lineno", fn.lineno))
        if not bad:
            R.ok(rule, PREP, qn, f"the declaration `{cfg}` and what is read out of it are only read; stores go to copies")


def _declared_settings(repo: Repo, R: Report, attrs: Dict[str, Dict[str, str]]) -> None:
    """*attrs*: generated class name -> {role: class attribute} for the roles mode / broadcast / vars, as read by that
    class' sweep body (`_iterate_sweep(.., mode=S.<attr>, broadcast=S.<attr>)`, `_materialize_sequences(vars=S.<attr>, ..)`).
    The other side of those reads: the factory stores its own `mode` / `broadcast` / `vars` argument under that attribute,
    as given - nothing between the entry of create() and the class body re-binds it (no derived default, no
    normalisation) -, and an omitted mode / broadcast is the documented 'combinatorial' / False."""
    rule = R.rule("C03-D3-declared-settings", "the mode, broadcast flag and variables a generated sweep class enumerates its steps with are the factory's `mode`, `broadcast` and `vars` arguments as given (each class attribute the sweep body reads is bound to the parameter itself, not re-bound on the way), and the factory's defaults are the documented ones: mode 'combinatorial', broadcast False", 11)
    raw = repo.func(SWEEP, CREATE)
    F = Flow(nfunc(repo, SWEEP, CREATE, keep=("_build_signature",), copyprop="all"))
    a = F.fn.args
    names = [p_.arg for p_ in a.posonlyargs + a.args] + [p_.arg for p_ in a.kwonlyargs]
    dfl: Dict[str, Optional[ast.AST]] = {}
    pa = a.posonlyargs + a.args
    for p_, d_ in zip(pa, [None] * (len(pa) - len(a.defaults)) + list(a.defaults)):
        dfl[p_.arg] = d_
    for p_, d_ in zip(a.kwonlyargs, a.kw_defaults):
        dfl[p_.arg] = d_
    from ..normal import module_constants
    consts = module_constants(repo.module(SWEEP))
    for role, doc in (("mode", "'combinatorial'"), ("broadcast", "False")):
        if role not in names:
            raise AnalysisError(f"create: parameter `{role}` not found (public keyword of the factory)")
        d_ = dfl.get(role)
        if isinstance(d_, ast.Name) and d_.id in consts:
            d_ = consts[d_.id]
        R.check(d_ is not None and kmatch(doc, d_) is not None, rule, SWEEP, CREATE, f"{role} defaults to {doc}", f"`{role}={_u(d_) if d_ is not None else '<required>'}`: the factory's default for `{role}` is not the documented {doc}: a sweep created without `{role}` enumerates its steps differently (e.g. aligned positions instead of the Cartesian product)", raw.lineno)
    for cname, roles in sorted(attrs.items()):
        cd = next((c for c in ast.walk(F.fn) if isinstance(c, ast.ClassDef) and c.name == cname), None)
        ids = F.g.nodes_for(cd) if cd is not None else []
        if not ids:
            raise AnalysisError(f"create: generated class {cname} not found in the normal form")
        for role, attr in sorted(roles.items()):
            sts = [st for st in cd.body if isinstance(st, (ast.Assign, ast.AnnAssign)) and getattr(st, "value", None) is not None
                   and any(isinstance(t, ast.Name) and t.id == attr for t in (st.targets if isinstance(st, ast.Assign) else [st.target]))]
            if len(sts) != 1:
                raise AnalysisError(f"create: class {cname} binds `{attr}` {len(sts)} times in its body (once confirmed by reading)")
            xs = [_strip_cast(x) for x in F.expand(sts[0].value, ids[0])]
            ok = bool(xs) and all(isinstance(x, ast.Name) and x.id == role for x in xs) and F.rdefs(role, ids[0]) == ([], True)
            redef = [F.g.nodes[d_] for d_ in F.rdefs(role, ids[0])[0]]
            where = redef[0] if redef else None
            R.check(ok, rule, SWEEP, f"{CREATE}.{cname}", f"{attr} = {role} (the factory's argument as given)",
                    f"`{_plain(where.text())[:100] if where is not None else _u(sts[0])[:100]}`: the `{role}` a {cname} enumerates its steps with is not the factory's `{role}` argument as given" + (f" (it is re-bound before the class is made)" if where is not None else "") + ": the sweep expands to a step sequence other than the one its declared mode / broadcast / variables document",
                    where.line if where is not None else getattr(sts[0], "lineno", raw.lineno))



# ---------------------------------------------------------------------------------------------------------
# D6 (upper bound of a log range): a small algebraic normal form
# ---------------------------------------------------------------------------------------------------------
# An expression over a range spec's fields is reduced to a rational function (quotient of two polynomials with
# exact coefficients) in the symbols A = log10(lo), B = log10(hi), n = steps, lo, hi.  log10 of a product / quotient /
# power of ten is taken apart (log10(x * 10 ** y) = log10(x) + y), so every spelling of the same formula has the same
# normal form and two formulas are compared by cross-multiplication.  No search, no solver: one bottom-up pass.

from fractions import Fraction

_Poly = Dict[Tuple[Tuple[str, int], ...], Fraction]
_Rat = Tuple[_Poly, _Poly]
LINEAR = "linear"  # marker: log10 of something that is a sum in lo / hi (not a product): the formula works in linear space


def _p_const(c) -> _Poly:
    return {(): Fraction(c)} if c != 0 else {}


def _p_sym(s: str) -> _Poly:
    return {((s, 1),): Fraction(1)}


def _p_add(a: _Poly, b: _Poly, sign: int = 1) -> _Poly:
    out = dict(a)
    for m, c in b.items():
        v = out.get(m, Fraction(0)) + sign * c
        if v == 0:
            out.pop(m, None)
        else:
            out[m] = v
    return out


def _p_mul(a: _Poly, b: _Poly) -> _Poly:
    out: _Poly = {}
    for m1, c1 in a.items():
        for m2, c2 in b.items():
            pw: Dict[str, int] = {}
            for s, k in m1 + m2:
                pw[s] = pw.get(s, 0) + k
            m = tuple(sorted(pw.items()))
            v = out.get(m, Fraction(0)) + c1 * c2
            if v == 0:
                out.pop(m, None)
            else:
                out[m] = v
    return out


def _r(p: _Poly) -> _Rat:
    return (p, _p_const(1))


def _r_add(a: _Rat, b: _Rat, sign: int = 1) -> _Rat:
    return (_p_add(_p_mul(a[0], b[1]), _p_mul(b[0], a[1]), sign), _p_mul(a[1], b[1]))


def _r_mul(a: _Rat, b: _Rat) -> _Rat:
    return (_p_mul(a[0], b[0]), _p_mul(a[1], b[1]))


def _r_div(a: _Rat, b: _Rat) -> Optional[_Rat]:
    return None if not b[0] else (_p_mul(a[0], b[1]), _p_mul(a[1], b[0]))


def _r_eq(a: _Rat, b: _Rat) -> bool:
    return _p_mul(a[0], b[1]) == _p_mul(b[0], a[1])


def _range_algebra(spec: str):
    """(val, lg): normal form of an expression over `<spec>.lo/.hi/.steps`, and of its log10.  Each returns a rational
    function, LINEAR (see above) or None (a construct the normal form does not cover)."""
    LOG10 = ("np.log10", "numpy.log10", "math.log10", "log10")

    def field(e: ast.AST) -> Optional[str]:
        if isinstance(e, ast.Attribute) and isinstance(e.value, ast.Name) and e.value.id == spec and e.attr in ("lo", "hi", "steps"):
            return e.attr
        return None

    def num(e: ast.AST):
        m = kany(["float(_X_)", "int(_X_)"], e)
        if m and isinstance(m["_X_"], ast.Constant):
            e = m["_X_"]
        if isinstance(e, ast.Constant) and isinstance(e.value, (int, float)) and not isinstance(e.value, bool):
            return Fraction(e.value)
        return None

    def val(e: ast.AST, depth: int = 0):
        if depth > 40:
            return None
        c = num(e)
        if c is not None:
            return _r(_p_const(c))
        f = field(e)
        if f is not None:
            return _r(_p_sym({"steps": "n"}.get(f, f)))
        if isinstance(e, ast.Call) and dotted_name(e.func) in LOG10 and len(e.args) == 1 and not e.keywords:
            return lg(e.args[0], depth + 1)
        m = kany(["float(_X_)"], e)
        if m:
            return val(m["_X_"], depth + 1)
        if isinstance(e, ast.UnaryOp) and isinstance(e.op, (ast.USub, ast.UAdd)):
            x = val(e.operand, depth + 1)
            if x is None or x == LINEAR:
                return x
            return _r_mul(_r(_p_const(-1)), x) if isinstance(e.op, ast.USub) else x
        if isinstance(e, ast.BinOp):
            if isinstance(e.op, ast.Pow):
                k = num(e.right)
                x = val(e.left, depth + 1)
                if x is None or x == LINEAR or k is None or k.denominator != 1 or not 0 <= k <= 6:
                    return None if x != LINEAR else LINEAR
                out = _r(_p_const(1))
                for _ in range(int(k)):
                    out = _r_mul(out, x)
                return out
            if not isinstance(e.op, (ast.Add, ast.Sub, ast.Mult, ast.Div)):
                return None
            x, y = val(e.left, depth + 1), val(e.right, depth + 1)
            if x is None or y is None:
                return None
            if x == LINEAR or y == LINEAR:
                return LINEAR
            if isinstance(e.op, ast.Add):
                return _r_add(x, y)
            if isinstance(e.op, ast.Sub):
                return _r_add(x, y, -1)
            if isinstance(e.op, ast.Mult):
                return _r_mul(x, y)
            return _r_div(x, y)
        return None

    def lg(e: ast.AST, depth: int = 0):
        if depth > 40:
            return None
        f = field(e)
        if f == "lo":
            return _r(_p_sym("A"))
        if f == "hi":
            return _r(_p_sym("B"))
        c = num(e)
        if c is not None:
            return _r(_p_const(1)) if c == 10 else _r(_p_const(0)) if c == 1 else None
        m = kany(["float(_X_)"], e)
        if m:
            return lg(m["_X_"], depth + 1)
        m = kany(["np.power(_X_, _Y_)", "numpy.power(_X_, _Y_)", "math.pow(_X_, _Y_)", "pow(_X_, _Y_)"], e)
        pw = (m["_X_"], m["_Y_"]) if m else (e.left, e.right) if isinstance(e, ast.BinOp) and isinstance(e.op, ast.Pow) else None
        if pw is not None:
            x, y = lg(pw[0], depth + 1), val(pw[1], depth + 1)
            if x is None or y is None:
                return None
            return LINEAR if LINEAR in (x, y) else _r_mul(x, y)
        if isinstance(e, ast.BinOp) and isinstance(e.op, (ast.Mult, ast.Div)):
            x, y = lg(e.left, depth + 1), lg(e.right, depth + 1)
            if x is None or y is None:
                return None
            return LINEAR if LINEAR in (x, y) else _r_add(x, y, 1 if isinstance(e.op, ast.Mult) else -1)
        if isinstance(e, (ast.BinOp, ast.UnaryOp)):
            # a sum / difference: when it is plain arithmetic over lo, hi, steps the bound is computed in linear space
            v = val(e, depth + 1)
            return None if v is None else LINEAR
        return None

    return val, lg


# ---------------------------------------------------------------------------------------------------------
# D2 (what "computed by expression" means): the interface between the generated bodies and the evaluator
# ---------------------------------------------------------------------------------------------------------
# The generated bodies call `fn(**step)` for every compiled expression (C03-D3-variants decides that side).
# The other side of that module boundary is the callable the evaluator hands out: the value of parameter p at a
# step is the expression over *this step's variables* only if every name the step binds resolves to the step's
# value when the expression is evaluated, i.e. the keyword arguments are the innermost layer of the evaluation
# scope.  Anything layered over them (a helper table, a cached scope, a literal entry) replaces the swept value of
# a like-named variable.

_EVAL_MECHANISM_KEYS = {"__builtins__"}  # the entry eval() itself reads from its globals; not an expression name


def _closure_factories(repo: Repo) -> List[Tuple[object, ast.AST]]:
    """Methods of classes defined outside the sweep module that the factory's construction code (create and the
    module-level helpers it calls) invokes on a typed receiver and that return a closure: where the callables
    kept for the parametric expressions are made.  Found through the call graph, the receiver's annotation /
    constructor and the shape of the returned value - not through names."""
    mod = repo.module(SWEEP)
    create = repo.func(SWEEP, CREATE)
    fns: List[ast.AST] = [create]
    seen = {id(create)}
    i = 0
    while i < len(fns):
        f = fns[i]
        i += 1
        for c in calls_in(f, include_nested=True):
            try:
                targets = repo.resolve_call(mod, c)
            except Exception:
                targets = []
            for tm, tn in targets:
                if tm.rel == SWEEP and isinstance(tn, FuncNode) and id(tn) not in seen and parent(tn) is mod.tree:
                    seen.add(id(tn))
                    fns.append(tn)

    def classes_in(e: Optional[ast.AST], ctx: ast.AST) -> List[Tuple[object, ast.ClassDef]]:
        out = []
        for x in ast.walk(e) if e is not None else []:
            if isinstance(x, (ast.Name, ast.Attribute)):
                try:
                    r = repo.resolve_name(mod, x, ctx)
                except Exception:
                    r = None
                if r is not None and isinstance(r[1], ast.ClassDef) and r[0].rel != SWEEP:
                    out.append(r)
        return out

    def returns_closure(meth: ast.AST) -> bool:
        nested = {n.name for n in ast.walk(meth) if isinstance(n, FuncNode) and n is not meth}
        for r in walk_no_nested(meth):
            if isinstance(r, ast.Return) and r.value is not None:
                vals = [r.value] + (assigned_value(meth, r.value.id) if isinstance(r.value, ast.Name) else [])
                if any(isinstance(v, ast.Lambda) or (isinstance(v, ast.Name) and v.id in nested) for v in vals):
                    return True
        return False

    found: Dict[int, Tuple[object, ast.AST]] = {}
    for f in fns:
        a = f.args
        ann = {p.arg: p.annotation for p in a.posonlyargs + a.args + a.kwonlyargs if p.annotation is not None}
        for c in calls_in(f, include_nested=True):
            if not (isinstance(c.func, ast.Attribute) and isinstance(c.func.value, ast.Name)):
                continue
            recv = c.func.value.id
            cands = classes_in(ann.get(recv), f)
            for v in assigned_value(f, recv):
                for k in ast.walk(v):
                    if isinstance(k, ast.Call):
                        cands += classes_in(k.func, f)
            for cm, cd in cands:
                hit = repo.method(cm, cd, c.func.attr)
                impls = [hit] if hit else []
                for sm, sc in repo.subclasses(cd):
                    impls += [(sm, st) for st in sc.body if isinstance(st, FuncNode) and st.name == c.func.attr]
                for hm, h in impls:
                    if isinstance(h, FuncNode) and returns_closure(h):
                        found[id(h)] = (hm, h)
    if not found:
        # untyped receivers (no annotation, object handed on through parameters): any class the construction code
        # instantiates or names, any method name it calls on some object
        attrs = {c.func.attr for f in fns for c in calls_in(f, include_nested=True) if isinstance(c.func, ast.Attribute)}
        for f in fns:
            for cm, cd in classes_in(f, f):
                for at_ in attrs:
                    hit = repo.method(cm, cd, at_)
                    if hit and isinstance(hit[1], FuncNode) and returns_closure(hit[1]):
                        found[id(hit[1])] = hit
    return list(found.values())


def _expression_scope(repo: Repo, R: Report) -> None:
    """Decided on the normal form of the closure factory (helpers inlined, naming locals substituted, also inside
    the closure) with value expansion: every `eval(source, globals[, locals])` of the returned callable is looked at by
    the mappings its name scope is layered from, in lookup order (locals before globals; in one mapping the later
    layer overwrites the earlier).  Skipping the key eval() itself reads (`__builtins__`), the first layer must be the
    callable's keyword arguments."""
    rule = R.rule("C03-D2-expression-variables", "the callable an expression is compiled to evaluates it with the step's variables - the keyword arguments the generated bodies call it with, fn(**step) - as the innermost layer of the name scope: no helper table, cached scope or literal entry is looked up before (or written over) them, so a name the step binds always evaluates to the step's value", 1)
    facts = _closure_factories(repo)
    if not facts:
        raise AnalysisError("the method that makes the callables of the sweep's parametric expressions (a closure-returning method of an evaluator class used by ParametricSweepFactory.create) was not found")
    n_evals = 0
    helper_maps: List[Tuple[object, ast.AST, str]] = []
    for hm, h in facts:
        rel, hqn = hm.rel, qualname_of(h)
        repo.consulted.add(rel)
        FC = Flow(nfunc(repo, rel, hqn, copyprop="all", deep=True))
        nested = [n for n in ast.walk(FC.fn) if isinstance(n, FuncNode) and n is not FC.fn and next((a for a in ancestors(n) if isinstance(a, FuncNode + (ast.Lambda,))), None) is FC.fn]
        made: List[Tuple[ast.AST, ast.Return]] = []
        for r in [x for x in walk_no_nested(FC.fn) if isinstance(x, ast.Return) and x.value is not None]:
            for x in FC.expand(r.value, FC.nid(r)):
                for leaf, _c in _split_ifexp(x) if not isinstance(x, ast.Lambda) else [(x, ())]:
                    if isinstance(leaf, ast.Lambda):
                        k: ast.AST = ast.parse("def _lambda_():\n    return None").body[0]
                        k.args, k.body[0].value = leaf.args, leaf.body  # type: ignore[attr-defined]
                        ast.copy_location(k, leaf)
                        ast.copy_location(k.body[0], leaf)  # type: ignore[attr-defined]
                        ast.fix_missing_locations(k)
                        made.append((k, r))
                    elif isinstance(leaf, ast.Name) and any(n.name == leaf.id for n in nested):
                        made += [(n, r) for n in nested if n.name == leaf.id]
                    else:
                        # a memo hit: a read of a table on the evaluator that this method fills with its own closures only
                        m = kany(["self._T_.get(_ANY_)", "self._T_[_ANY_]", "self._T_.get(_ANY_, None)"], leaf)
                        tname = name_of(m, "_T_") if m else None
                        stores = [st for st in walk_no_nested(FC.fn) if isinstance(st, ast.Assign) and tname and any(kmatch(f"self.{tname}[_ANY_]", t) is not None for t in st.targets)]
                        if not (stores and all(isinstance(v_, ast.Name) and any(n.name == v_.id for n in nested) for st in stores for v_ in FC.expand(st.value, FC.nid(st)))):
                            raise AnalysisError(f"{hqn}: returns `{_u(leaf)[:80]}`, not a closure defined in the method (shape not analysed)")
        uniq: Dict[int, Tuple[ast.AST, ast.Return]] = {}
        for K, ret in made:
            uniq.setdefault(id(K), (K, ret))
        for K, ret in uniq.values():
            kqn = f"{hqn}.{K.name}" if K.name != "_lambda_" else f"{hqn}.<lambda>"
            kline = getattr(K, "lineno", h.lineno)
            kwname = K.args.kwarg.arg if K.args.kwarg else None
            R.check(kwname is not None, rule, rel, kqn, "the callable takes the step's variables as keyword arguments (**kwargs)", "the callable the sweep calls as fn(**step) has no **keyword parameter: it cannot receive the step's variables by name", kline)
            if kwname is None:
                n_evals += 1
                continue
            FK = Flow(K)
            own = set(FK.params) | set(FK.defnodes)
            free_mutated = {rn for _s, rn in mutation_sites(FK.fn, {x.id for x in ast.walk(FK.fn) if isinstance(x, ast.Name)} - own)}
            top = list(FK.fn.body)

            def top_index(node: ast.AST) -> Optional[int]:
                """Number of the top-level statement of the callable that contains *node*."""
                for x in [node] + list(ancestors(node)):
                    for j, s_ in enumerate(top):
                        if s_ is x:
                            return j
                return None

            def values(e: ast.AST, at: int) -> List[ast.AST]:
                """*e* at node *at* of the callable, locals expanded; free variables by their value when the factory returns."""
                out: List[ast.AST] = []
                for x in FK.expand(e, at):
                    free = {n.id for n in ast.walk(x) if isinstance(n, ast.Name) and isinstance(n.ctx, ast.Load) and n.id in FC.defnodes and n.id not in own}
                    ys = FC.expand(x, FC.nid(ret), keep=tuple(sorted(own))) if free else [x]
                    for y in ys:
                        out += [leaf for leaf, _c in _split_ifexp(y)]
                return out

            Layer = Tuple[str, str]

            def join(parts: List[Optional[List[Layer]]]) -> Optional[List[Layer]]:
                out: List[Layer] = []
                for p in parts:
                    if p is None:
                        return None
                    out += p
                return out

            def layers(e: Optional[ast.AST], limit: int, depth: int = 0) -> Optional[List[Layer]]:
                """The mappings *e* is layered from, lowest priority first: ('kw', name) the keyword arguments, ('key', k)
                a literal entry, ('map', text) any other mapping; None when the construction is not understood."""
                if e is None or depth > 8:
                    return None
                if isinstance(e, ast.Name):
                    if e.id == kwname:
                        return [("kw", kwname)]
                    if e.id.startswith("__mutated_"):
                        return built(e.id[len("__mutated_"):-2], limit, depth + 1)
                    if e.id.startswith("__opaque_") or e.id in free_mutated:
                        return None
                    return [("map", e.id)]
                if isinstance(e, ast.Attribute):
                    return [("map", _u(e))]
                if isinstance(e, ast.Dict):
                    parts: List[Optional[List[Layer]]] = []
                    for k_, v_ in zip(e.keys, e.values):
                        if k_ is None:
                            parts.append(layers(v_, limit, depth + 1))
                        elif isinstance(k_, ast.Constant) and isinstance(k_.value, str):
                            parts.append([("key", k_.value)])
                        else:
                            return None
                    return join(parts)
                if isinstance(e, ast.BinOp) and isinstance(e.op, ast.BitOr):
                    return join([layers(e.left, limit, depth + 1), layers(e.right, limit, depth + 1)])
                if isinstance(e, ast.DictComp) and len(e.generators) == 1 and not e.generators[0].ifs:
                    m = kany(["{_k_: _v_ for (_k_, _v_) in _X_.items()}", "{_k_: _X_[_k_] for _k_ in _X_}"], e)
                    return layers(m["_X_"], limit, depth + 1) if m else None
                if isinstance(e, ast.Call):
                    fnm = (dotted_name(e.func) or "").split(".")[-1]
                    if isinstance(e.func, ast.Attribute) and e.func.attr == "copy" and not e.args and not e.keywords:
                        return layers(e.func.value, limit, depth + 1)
                    if isinstance(e.func, ast.Attribute) and e.func.attr == "items" and not e.args and not e.keywords:
                        return layers(e.func.value, limit, depth + 1)
                    if any(isinstance(a_, ast.Starred) for a_ in e.args):
                        return None
                    if fnm in ("dict", "MappingProxyType") and len(e.args) <= 1:
                        parts = [layers(a_, limit, depth + 1) for a_ in e.args]
                        parts += [layers(kw_.value, limit, depth + 1) if kw_.arg is None else [("key", kw_.arg)] for kw_ in e.keywords]
                        return join(parts)
                    if fnm == "ChainMap" and not e.keywords:  # the first mapping is searched first
                        return join([layers(a_, limit, depth + 1) for a_ in reversed(e.args)])
                return None

            def built(name: str, limit: int, depth: int) -> Optional[List[Layer]]:
                """Layers of a local mapping that is filled statement by statement (top-level statements of the callable
                before statement number *limit* only)."""
                cur: Optional[List[Layer]] = None
                sites = [s for s, _r in mutation_sites(FK.fn, {name})]
                idx = [top_index(s) for s in sites]
                if any(j is None or j >= limit for j in idx):
                    return None
                for j, st in enumerate(top[:limit]):
                    tg = st.targets if isinstance(st, ast.Assign) else [st.target] if isinstance(st, ast.AnnAssign) and st.value is not None else []
                    if any(isinstance(t, ast.Name) and t.id == name for t in tg):
                        if len(tg) != 1:
                            return None
                        vs = values(st.value, FK.nid(st))
                        cur = layers(vs[0], j, depth + 1) if len(vs) == 1 else None
                        if cur is None:
                            return None
                        continue
                    if j not in idx:
                        if any(isinstance(x, ast.Name) and x.id == name and isinstance(x.ctx, (ast.Store, ast.Del)) for x in ast.walk(st)):
                            return None
                        continue
                    if cur is None:
                        return None
                    add: Optional[List[Layer]] = None
                    if isinstance(st, ast.Expr) and isinstance(st.value, ast.Call) and kmatch(f"{name}.update", st.value.func) is not None and len(st.value.args) <= 1 and not any(isinstance(a_, ast.Starred) for a_ in st.value.args):
                        parts = [single(a_, st, j, depth) for a_ in st.value.args]
                        parts += [single(kw_.value, st, j, depth) if kw_.arg is None else [("key", kw_.arg)] for kw_ in st.value.keywords]
                        add = join(parts)
                    elif isinstance(st, ast.AugAssign) and isinstance(st.op, ast.BitOr) and isinstance(st.target, ast.Name) and st.target.id == name:
                        add = single(st.value, st, j, depth)
                    elif isinstance(st, ast.Assign) and len(st.targets) == 1 and kmatch(f"{name}[_K_]", st.targets[0]) is not None:
                        k_ = st.targets[0].slice
                        add = [("key", k_.value)] if isinstance(k_, ast.Constant) and isinstance(k_.value, str) else None
                    elif isinstance(st, ast.For):
                        m = (kmatch(f"for (_k_, _v_) in _Y_.items():\n    {name}[_k_] = _v_", st) or kmatch(f"for _k_ in _Y_:\n    {name}[_k_] = _Y_[_k_]", st)
                             or kmatch(f"for _k_ in _Y_.keys():\n    {name}[_k_] = _Y_[_k_]", st))
                        add = single(m["_Y_"], st, j, depth) if m else None
                    if add is None:
                        return None
                    cur = cur + add
                return cur

            def single(e: ast.AST, st: ast.AST, j: int, depth: int) -> Optional[List[Layer]]:
                vs = values(e, FK.nid(st))
                return layers(vs[0], j, depth + 1) if len(vs) == 1 else None

            def show(l: Layer) -> str:
                return f"the literal entry '{l[1]}'" if l[0] == "key" else f"`{l[1]}`"

            evals = [c for c in ast.walk(FK.fn) if isinstance(c, ast.Call) and isinstance(c.func, ast.Name) and c.func.id == "eval" and any(c is x for x in walk_no_nested(FK.fn))]
            if not evals:
                raise AnalysisError(f"{kqn}: no eval() call in the callable an expression is compiled to (the evaluation mechanism is not the analysed one)")
            for c in evals:
                n_evals += 1
                b = _bind_args(c, ["source", "globals", "locals"])
                if b is None or "source" not in b or not set(b) <= {"source", "globals", "locals"}:
                    raise AnalysisError(f"{kqn}: arguments of `{_u(c)[:80]}` not understood")
                at, lim = FK.nid(c), top_index(c)
                if lim is None:
                    raise AnalysisError(f"{kqn}: `{_u(c)[:80]}` is not inside the callable's body")
                gl = values(b["globals"], at) if "globals" in b else []
                lo = [x for x in (values(b["locals"], at) if "locals" in b else []) if not (isinstance(x, ast.Constant) and x.value is None)]
                if "globals" not in b or not gl:
                    R.check(False, rule, rel, kqn, _u(c), f"`{_u(c)[:100]}` evaluates the expression in the namespace of the evaluator's own module: the step's variables ({kwname}) are not in scope", getattr(c, "lineno", kline))
                    continue
                for g_ in gl:
                    for l_ in lo or [None]:
                        gs = layers(g_, lim)
                        ls = layers(l_, lim) if l_ is not None else []
                        if gs is None or ls is None:
                            bad_e = l_ if ls is None else g_
                            raise AnalysisError(f"{kqn}: the evaluation scope `{_u(bad_e)[:100]}` of `{_u(c)[:60]}` is not a layering of mappings this rule understands")
                        order = list(reversed(ls)) + list(reversed(gs))  # name lookup order: locals, then globals; last writer first
                        order = [l for l in order if not (l[0] == "key" and l[1] in _EVAL_MECHANISM_KEYS)]
                        scope_txt = _u(g_) if l_ is None else f"globals {_u(g_)}, locals {_u(l_)}"
                        helper_maps += [(hm, h, l[1]) for l in order if l[0] == "map"]
                        if not any(l[0] == "kw" for l in order):
                            R.check(False, rule, rel, kqn, _u(c), f"`{_u(c)[:100]}`: the step's variables (`{kwname}`) are not part of the evaluation scope ({scope_txt[:100]}); the expression is not evaluated on this step's values", getattr(c, "lineno", kline))
                        else:
                            over = order[:next(j for j, l in enumerate(order) if l[0] == "kw")]
                            R.check(not over, rule, rel, kqn, _u(c), f"`{_u(c)[:100]}` with scope {scope_txt[:120]}: {', '.join(show(l) for l in over)} {'is' if len(over) == 1 else 'are'} looked up before the step's variables (`{kwname}`): a sweep variable named like one of {'its' if len(over) == 1 else 'their'} entries (e.g. a helper function name such as min / max / abs) evaluates to that entry instead of the step's value, so the computed parameter is not the expression over this step's variables" if over else "", getattr(c, "lineno", kline))
    if n_evals == 0:
        raise AnalysisError("no evaluation site found in the callables of the sweep's parametric expressions")
    _expression_helpers(repo, R, helper_maps)


# ---------------------------------------------------------------------------------------------------------
# D2 (what a helper call in an expression means): the table layered under the step's variables
# ---------------------------------------------------------------------------------------------------------
# C03-D2-expression-variables decides that the step's variables are the innermost layer of the evaluation scope.  The
# layer(s) under them are where a call such as `bool(x)` / `round(x)` / `min(a, b)` in an expression finds its function.
# The safe grammar documents these helpers as the Python builtins of the same name: "the value of parameter p computed
# by expression E at step i" is E evaluated with Python's own bool / int / round ... .  The other side of that
# interface is the table the evaluator class builds: an entry named like a builtin that is bound to anything else (a
# function of the package, a lambda, another builtin) changes what every expression using it computes, silently.

import builtins as _py_builtins

_BUILTIN_NAMES = {n for n in dir(_py_builtins) if not n.startswith("_")}


def _table_entries(repo: Repo, mod, ctx: ast.AST, e: Optional[ast.AST], cls_chain, depth: int = 0, seen: Optional[Set[Tuple[int, str]]] = None):
    """The entries the mapping expression *e* (evaluated in function / module *ctx* of module *mod*) can hold, as a list of
    (name, value expression, module and scope the value is evaluated in, site); entries supplied by a caller (through a
    parameter) are left out.  None when the construction is not understood.  *cls_chain*: the classes (module, ClassDef)
    whose `self.<attr>` / `cls.<attr>` the expression may read."""
    seen = seen if seen is not None else set()
    if e is None or depth > 10:
        return None

    def many(parts) -> Optional[list]:
        out: list = []
        for p_ in parts:
            if p_ is None:
                return None
            out += p_
        return out

    def rec(x: Optional[ast.AST], c: ast.AST = ctx, m=mod):
        return _table_entries(repo, m, c, x, cls_chain, depth + 1, seen)

    e = _strip_cast(e)
    if isinstance(e, ast.Constant) and e.value is None:
        return []
    if isinstance(e, ast.Dict):
        parts = []
        for k, v in zip(e.keys, e.values):
            if k is None:
                parts.append(rec(v))
            elif isinstance(k, ast.Constant) and isinstance(k.value, str):
                parts.append([(k.value, v, mod, ctx, v)])
            else:
                return None
        return many(parts)
    if isinstance(e, ast.BinOp) and isinstance(e.op, ast.BitOr):
        return many([rec(e.left), rec(e.right)])
    if isinstance(e, ast.IfExp):
        return many([rec(e.body), rec(e.orelse)])
    if isinstance(e, ast.BoolOp):
        return many([rec(v) for v in e.values])
    if isinstance(e, ast.DictComp):
        m_ = kany(["{_k_: _v_ for (_k_, _v_) in _X_.items()}", "{_k_: _X_[_k_] for _k_ in _X_}", "{_k_: _X_[_k_] for _k_ in _X_.keys()}"], e)
        return rec(m_["_X_"]) if m_ else None
    if isinstance(e, ast.Call):
        fnm = (dotted_name(e.func) or "").split(".")[-1]
        if isinstance(e.func, ast.Attribute) and e.func.attr in ("copy", "items") and not e.args and not e.keywords:
            return rec(e.func.value)
        if any(isinstance(a, ast.Starred) for a in e.args):
            return None
        if fnm in ("dict", "MappingProxyType", "OrderedDict") and len(e.args) <= 1:
            return many([rec(a) for a in e.args] + [rec(k.value) if k.arg is None else [(k.arg, k.value, mod, ctx, k.value)] for k in e.keywords])
        if fnm == "ChainMap" and not e.keywords:
            return many([rec(a) for a in e.args])
        if fnm == "deepcopy" and len(e.args) == 1:
            return rec(e.args[0])
        return None
    if isinstance(e, ast.Attribute) and isinstance(e.value, ast.Name) and (e.value.id in ("self", "cls") or any(cd.name == e.value.id for _m, cd in cls_chain)):
        return _attr_entries(repo, cls_chain, e.attr, depth + 1, seen)
    if isinstance(e, ast.Name):
        key = (id(ctx), e.id)
        if key in seen:
            return []
        seen.add(key)
        if isinstance(ctx, FuncNode):
            a = ctx.args
            if e.id in {p_.arg for p_ in a.posonlyargs + a.args + a.kwonlyargs} | ({a.vararg.arg} if a.vararg else set()) | ({a.kwarg.arg} if a.kwarg else set()):
                # a parameter: what the caller supplies (its default included) is the caller's business; but the parameter may be re-bound / filled
                vals = assigned_value(ctx, e.id)
                return many([rec(v) for v in vals] + [_filled(repo, mod, ctx, e.id, cls_chain, depth, seen)])
            vals = assigned_value(ctx, e.id)
            if vals or any(isinstance(x, ast.Name) and x.id == e.id and not isinstance(x.ctx, ast.Load) for x in walk_no_nested(ctx)):
                if not vals:
                    return None  # bound by a loop / with / unpacking: not a table this rule follows
                return many([rec(v) for v in vals] + [_filled(repo, mod, ctx, e.id, cls_chain, depth, seen)])
        # a module-level table
        tops = [st for st in mod.tree.body if (isinstance(st, ast.Assign) and any(isinstance(t, ast.Name) and t.id == e.id for t in st.targets))
                or (isinstance(st, ast.AnnAssign) and isinstance(st.target, ast.Name) and st.target.id == e.id and st.value is not None)]
        if tops:
            return many([rec(st.value, mod.tree, mod) for st in tops] + [_filled(repo, mod, mod.tree, e.id, cls_chain, depth, seen)])
        target = mod.imports.get(e.id)
        hit = repo.resolve_dotted(target) if target else None
        if hit is None and target:
            # an imported module-level table of another module of the package
            head, _, last = target.rpartition(".")
            om = repo.by_dotted.get(head)
            if om is not None:
                return _table_entries(repo, om, om.tree, ast.Name(id=last, ctx=ast.Load()), cls_chain, depth + 1, seen)
        return None
    return None


def _filled(repo: Repo, mod, ctx: ast.AST, name: str, cls_chain, depth: int, seen):
    """Entries put into the mapping held by local / module-level name *name* after it was made (stores, update, |=,
    setdefault); None when it is modified in a way this rule does not follow (removals do not add entries)."""
    out: list = []
    body = ctx if isinstance(ctx, FuncNode) else ast.Module(body=[st for st in ctx.body if not isinstance(st, FuncNode + (ast.ClassDef,))], type_ignores=[])
    for st, _r in mutation_sites(body, {name}):
        if isinstance(st, ast.Assign) and len(st.targets) == 1 and kmatch(f"{name}[_K_]", st.targets[0]) is not None:
            k = st.targets[0].slice
            if not (isinstance(k, ast.Constant) and isinstance(k.value, str)):
                return None
            out.append((k.value, st.value, mod, ctx, st))
        elif isinstance(st, ast.AugAssign) and isinstance(st.op, ast.BitOr) and isinstance(st.target, ast.Name) and st.target.id == name:
            r = _table_entries(repo, mod, ctx, st.value, cls_chain, depth + 1, seen)
            if r is None:
                return None
            out += r
        elif isinstance(st, ast.Call) and kmatch(f"{name}.update", st.func) is not None and len(st.args) <= 1 and not any(isinstance(a, ast.Starred) for a in st.args):
            for part in [a for a in st.args] + [k for k in st.keywords]:
                if isinstance(part, ast.keyword) and part.arg is not None:
                    out.append((part.arg, part.value, mod, ctx, st))
                    continue
                r = _table_entries(repo, mod, ctx, part.value if isinstance(part, ast.keyword) else part, cls_chain, depth + 1, seen)
                if r is None:
                    return None
                out += r
        elif isinstance(st, ast.Call) and kmatch(f"{name}.setdefault(_K_, _V_)", st) is not None and isinstance(st.args[0], ast.Constant) and isinstance(st.args[0].value, str):
            out.append((st.args[0].value, st.args[1], mod, ctx, st))
        elif isinstance(st, ast.Call) and kmatch(f"{name}._M_", st.func) is not None and st.func.attr in ("pop", "popitem", "clear", "discard"):
            continue
        elif isinstance(st, ast.Delete):
            continue
        else:
            return None
    return out


def _attr_entries(repo: Repo, cls_chain, attr: str, depth: int, seen):
    """Entries of the mapping kept under attribute *attr* of the evaluator: every `self.<attr> = V` of the classes'
    methods and every class-level `<attr> = V`."""
    key = (0, "." + attr)
    if key in seen:
        return []
    seen.add(key)
    out: list = []
    found = False
    for cm, cd in cls_chain:
        for st in cd.body:
            if isinstance(st, (ast.Assign, ast.AnnAssign)) and getattr(st, "value", None) is not None and any(isinstance(t, ast.Name) and t.id == attr for t in (st.targets if isinstance(st, ast.Assign) else [st.target])):
                found = True
                r = _table_entries(repo, cm, cm.tree, st.value, cls_chain, depth + 1, seen)
                if r is None:
                    return None
                out += r
            elif isinstance(st, FuncNode):
                recv_p = st.args.args[0].arg if st.args.args else None
                for wst, _f, recv, v in _field_stores(st, {attr}):
                    if not (isinstance(recv, ast.Name) and recv.id == recv_p):
                        continue
                    found = True
                    if v is None:
                        return None
                    r = _table_entries(repo, cm, st, v, cls_chain, depth + 1, seen)
                    if r is None:
                        return None
                    out += r
                # entries added through the attribute itself: self.<attr>[k] = v, self.<attr>.update(..)
                for n in walk_no_nested(st):
                    if isinstance(n, ast.Assign) and len(n.targets) == 1 and isinstance(n.targets[0], ast.Subscript) and kmatch(f"{recv_p}.{attr}", n.targets[0].value) is not None:
                        k = n.targets[0].slice
                        if not (isinstance(k, ast.Constant) and isinstance(k.value, str)):
                            return None
                        out.append((k.value, n.value, cm, st, n))
                    elif isinstance(n, ast.Call) and kmatch(f"{recv_p}.{attr}.update", n.func) is not None:
                        if len(n.args) > 1 or any(isinstance(a, ast.Starred) for a in n.args):
                            return None
                        for part in list(n.args) + list(n.keywords):
                            if isinstance(part, ast.keyword) and part.arg is not None:
                                out.append((part.arg, part.value, cm, st, n))
                                continue
                            r = _table_entries(repo, cm, st, part.value if isinstance(part, ast.keyword) else part, cls_chain, depth + 1, seen)
                            if r is None:
                                return None
                            out += r
    return out if found else None


def _bound_in(scope: ast.AST, name: str) -> bool:
    """*name* is bound (def / class / import / assignment / parameter) in function or module *scope* itself"""
    if isinstance(scope, FuncNode):
        a = scope.args
        if name in {p_.arg for p_ in a.posonlyargs + a.args + a.kwonlyargs} | ({a.vararg.arg} if a.vararg else set()) | ({a.kwarg.arg} if a.kwarg else set()):
            return True
        nodes = list(walk_no_nested(scope, include_root=False))
    else:
        nodes = []
        todo = list(scope.body)
        while todo:
            st = todo.pop()
            nodes.append(st)
            if not isinstance(st, FuncNode + (ast.ClassDef,)):
                todo += [c for c in ast.iter_child_nodes(st)]
    for n in nodes:
        if isinstance(n, FuncNode + (ast.ClassDef,)) and n.name == name:
            return True
        if isinstance(n, (ast.Import, ast.ImportFrom)) and any((al.asname or al.name).split(".")[0] == name for al in n.names):
            return True
        if isinstance(n, ast.Name) and n.id == name and not isinstance(n.ctx, ast.Load):
            return True
    return False


def _is_builtin_named(name: str, v: ast.AST, mod, scope: ast.AST) -> bool:
    """expression *v*, evaluated in *scope* of module *mod*, is the Python builtin called *name*"""
    v = _strip_cast(v)
    if isinstance(v, ast.Name):
        if v.id != name or name not in _BUILTIN_NAMES:
            return False
        scopes = [scope] + [a for a in ancestors(scope) if isinstance(a, FuncNode + (ast.Module,))] if not isinstance(scope, ast.Module) else [scope]
        if mod.tree not in scopes:
            scopes.append(mod.tree)
        return not any(_bound_in(s_, name) for s_ in scopes)
    d = dotted_name(v)
    if d in (f"builtins.{name}", f"__builtins__.{name}"):
        return mod.imports.get("builtins", "builtins") == "builtins" and not _bound_in(mod.tree, "__builtins__")
    m_ = kany(["getattr(builtins, _N_)", "builtins.__dict__[_N_]"], v)
    return bool(m_) and isinstance(m_["_N_"], ast.Constant) and m_["_N_"].value == name


def _expression_helpers(repo: Repo, R: Report, maps: List[Tuple[object, ast.AST, str]]) -> None:
    """*maps*: (module, closure-factory method, text) of the mappings layered under the step's variables in the
    evaluation scope of a compiled expression."""
    rule = R.rule("C03-D2-expression-helpers", "a helper call in a sweep expression (abs / min / max / round / float / int / str / bool ...) means the Python builtin of that name: every entry named like a builtin in the table(s) the evaluator layers under the step's variables is bound to that builtin itself - not to a function of the package, a lambda or another builtin - so the value computed for a parameter at step i is the expression over the step's variables with Python's own semantics", 1)
    done: Set[Tuple[str, str]] = set()
    for hm, h, text in maps:
        cd = next((a for a in ancestors(h) if isinstance(a, ast.ClassDef)), None)
        if (hm.rel, text) in done:
            continue
        done.add((hm.rel, text))
        chain = repo.mro(hm, cd) if cd is not None else []
        for cm, _c in chain:
            repo.consulted.add(cm.rel)
        try:
            e = ast.parse(text, mode="eval").body
        except SyntaxError:
            continue
        entries = _table_entries(repo, hm, h, e, chain)
        if entries is None:
            raise AnalysisError(f"{qualname_of(h)}: the table `{text}` that expressions find their helper functions in is not built in a way this rule follows (display, dict()/copy of a table, stores, update)")
        for name, v, vm, scope, site in entries:
            if name not in _BUILTIN_NAMES:
                continue  # not a name of Python's own: which extra helpers exist is not this property's business
            fn_q = qualname_of(scope) if isinstance(scope, FuncNode) else "<module>"
            stmt = f"'{name}': {_u(v)[:60]}"
            R.check(_is_builtin_named(name, v, vm, scope), rule, vm.rel, fn_q, stmt, f"`{stmt}`: in sweep expressions the helper `{name}(...)` is not Python's builtin `{name}` but `{_u(v)[:60]}`: every expression that calls it (e.g. a parameter computed as `{name}(<sweep variable>)`) evaluates to something else than the documented expression over the step's variables, so element i is not the wrapped processor applied with the computed parameters", getattr(site, "lineno", getattr(v, "lineno", 0)))



# ---------------------------------------------------------------------------------------------------------
# D6 (the other side of `spec.lo`, `spec.values`, `spec.key`): the spec classes hold what they were given
# ---------------------------------------------------------------------------------------------------------
# C03-D6-materialisation-arguments decides that linspace / logspace / list() receive the spec's fields in their roles.
# That is the documented sequence only if a field still holds the value the spec was written with (the YAML value,
# the constructor argument): the module boundary between the spec classes and the materialisation is "field F of a
# spec is the F it was constructed with".  A constructor / __post_init__ / method that re-writes a field (swaps lo
# and hi, sorts values, rounds steps, normalises a key) changes the element sequence of every sweep that uses such a
# spec although the materialisation code is untouched.

_SPEC_HOOKS = ("__setattr__", "__getattribute__", "__getattr__", "__new__")


def _field_stores(fn: ast.AST, fields: Set[str]) -> List[Tuple[ast.AST, str, ast.AST, Optional[ast.AST]]]:
    """(statement, field, receiver, stored value or None) for every write of an attribute named like one of *fields*
    in *fn*: `R.F = v` (also as part of a tuple assignment, augmented, annotated, deleted), `setattr(R, 'F', v)`,
    `object.__setattr__(R, 'F', v)`, `R.__dict__['F'] = v`, `R.__dict__.update(..)` / `vars(R).update(..)`."""
    out: List[Tuple[ast.AST, str, ast.AST, Optional[ast.AST]]] = []
    for n in ast.walk(fn):
        if isinstance(n, ast.Attribute) and isinstance(n.ctx, (ast.Store, ast.Del)) and n.attr in fields:
            st = stmt_of(n)
            v = st.value if isinstance(st, ast.Assign) and any(t is n for t in st.targets) else st.value if isinstance(st, ast.AnnAssign) and st.target is n else None
            out.append((st, n.attr, n.value, v))
        elif isinstance(n, ast.Call):
            m = kany(["setattr(_R_, _F_, _V_)", "object.__setattr__(_R_, _F_, _V_)", "_R_.__setattr__(_F_, _V_)"], n)
            if m and isinstance(m["_F_"], ast.Constant) and m["_F_"].value in fields:
                out.append((stmt_of(n), m["_F_"].value, m["_R_"], m["_V_"]))
            elif m and not isinstance(m["_F_"], ast.Constant):
                out += [(stmt_of(n), f, m["_R_"], None) for f in sorted(fields)]
            m = kany(["_R_.__dict__.update(_ANY_)", "vars(_R_).update(_ANY_)", "_R_.__dict__.update(**_ANY_)", "vars(_R_).update(**_ANY_)"], n)
            if m or (isinstance(n.func, ast.Attribute) and n.func.attr == "update" and any(isinstance(x, ast.Attribute) and x.attr == "__dict__" for x in ast.walk(n.func.value))):
                recv = m["_R_"] if m else n.func.value
                out += [(stmt_of(n), f, recv, None) for f in sorted(fields)]
        elif isinstance(n, ast.Subscript) and isinstance(n.ctx, (ast.Store, ast.Del)) and isinstance(n.slice, ast.Constant) and n.slice.value in fields:
            m = kany(["_R_.__dict__[_ANY_]", "vars(_R_)[_ANY_]"], ast.Subscript(value=n.value, slice=n.slice, ctx=ast.Load()))
            if m:
                out.append((stmt_of(n), n.slice.value, m["_R_"], None))
    return out


def _spec_fields(repo: Repo, R: Report, readers: List[Tuple[str, str, "Flow"]], is_spec, kinds_of) -> None:
    """*readers*: (file, function, Flow) of the functions that read the specs (materialisation) or build them (YAML
    conversion); *is_spec(e)*: expression e denotes the variable's spec in the materialisation; *kinds_of*: the class
    expressions the materialisation dispatches on."""
    rule = R.rule("C03-D6-spec-fields-as-given", "a field of a variable spec (lo, hi, steps, scale, endpoint of a range; values of an explicit sequence; key of a from_context variable) that the materialisation reads holds the value the spec was constructed with: the spec class stores each constructor argument unchanged under its own name and nothing (constructor, __post_init__, another method, the materialisation or the YAML conversion) re-writes it afterwards", 5)
    rel_m, qn_m, FM = readers[0]
    mod = repo.module(rel_m)
    raw = repo.func(rel_m, qn_m)
    read = {x.attr for x in ast.walk(FM.fn) if isinstance(x, ast.Attribute) and isinstance(x.ctx, ast.Load) and is_spec(x.value)}
    read |= {m_["_F_"].value for c in ast.walk(FM.fn) if isinstance(c, ast.Call) for m_ in [kany(["getattr(_S_, _F_)", "getattr(_S_, _F_, _ANY_)"], c)]
             if m_ and is_spec(m_["_S_"]) and isinstance(m_["_F_"], ast.Constant) and isinstance(m_["_F_"].value, str)}
    if not read:
        raise AnalysisError(f"{qn_m}: no field of a variable spec is read (the materialisation is not the analysed one)")
    classes: Dict[int, Tuple[object, ast.ClassDef]] = {}
    for k in kinds_of:
        try:
            hit = repo.resolve_name(mod, k, raw)
        except Exception:
            hit = None
        if hit is not None and isinstance(hit[1], ast.ClassDef):
            classes[id(hit[1])] = hit
    if len(classes) < 3:
        raise AnalysisError(f"{qn_m}: {len(classes)} variable-spec classes resolved from the isinstance dispatch (3 confirmed by reading)")
    declared_somewhere: Set[str] = set()
    for cm, cd in classes.values():
        repo.consulted.add(cm.rel)
        chain = repo.mro(cm, cd)
        meths: Dict[str, Tuple[object, ast.AST]] = {}
        body_names: Set[str] = set()
        for m_, c_ in chain:
            for st in c_.body:
                if isinstance(st, FuncNode):
                    meths.setdefault(st.name, (m_, st))
                    body_names.add(st.name)
        hooks = [h for h in _SPEC_HOOKS if h in meths]
        if hooks:
            raise AnalysisError(f"{cd.name}: defines {hooks} (attribute access of a variable spec is intercepted: shape not analysed)")
        decos = [d for _m, c_ in chain for d in c_.decorator_list]
        is_dc = any((dotted_name(d.func if isinstance(d, ast.Call) else d) or "").split(".")[-1] == "dataclass" for d in decos)
        if any(isinstance(d, ast.Call) and any(k_.arg == "init" and not (isinstance(k_.value, ast.Constant) and k_.value.value is True) for k_ in d.keywords) for d in decos):
            raise AnalysisError(f"{cd.name}: dataclass(init=...) (construction of a variable spec: shape not analysed)")
        init = meths.get("__init__")
        ann: Dict[str, ast.AST] = {}
        for _m, c_ in reversed(chain):
            for st in c_.body:
                if isinstance(st, ast.AnnAssign) and isinstance(st.target, ast.Name) and "ClassVar" not in _u(st.annotation):
                    ann[st.target.id] = st
        fields: Set[str]
        if init is not None:
            self_p = init[1].args.args[0].arg if init[1].args.args else "self"
            fields = {f for _st, f, recv, _v in _field_stores(init[1], read) if isinstance(recv, ast.Name) and recv.id == self_p}
        elif is_dc:
            fields = set(ann)
        else:
            fields = set()
        fields &= read
        if not fields:
            raise AnalysisError(f"{cd.name}: none of the fields the materialisation reads ({sorted(read)}) is declared by the class (dataclass field / store in __init__)")
        declared_somewhere |= fields
        shadow = sorted(f for f in fields if f in body_names)
        if shadow:
            raise AnalysisError(f"{cd.name}: {shadow} is both a field and a method / property of the class (shape not analysed)")
        qn_c = cd.name
        # (a) construction: every field is the like-named constructor argument, unchanged
        ok_init: Set[int] = set()
        if init is not None:
            im, ifn = init
            FI = Flow(normalize(repo, im, ifn, copyprop="all"))
            a_ = FI.fn.args
            pnames = [p.arg for p in a_.posonlyargs + a_.args + a_.kwonlyargs][1:]
            for f in sorted(fields):
                sts = [(st, v) for st, f2, recv, v in _field_stores(FI.fn, {f}) if isinstance(recv, ast.Name) and recv.id == self_p and any(st is x for x in walk_no_nested(FI.fn))]
                good = []
                for st, v in sts:
                    xs = FI.expand(v, FI.nid(st)) if v is not None and isinstance(st, (ast.Assign, ast.AnnAssign)) else []
                    if xs and all(isinstance(x, ast.Name) and x.id in pnames and (x.id == f or len(fields) == 1) for x in xs) and all(FI.rdefs(x.id, FI.nid(st)) == ([], True) for x in xs):
                        good.append(st)
                bad = [st for st, _v in sts if st not in good]
                ids = {FI.nid(st) for st in good}
                skipped = FI.g.ret_exit in _reach(FI.g, [FI.g.entry], ids)
                ok_init |= {id(st) for st in good}
                R.check(not bad and bool(good) and not skipped, rule, cm.rel, f"{qn_c}.__init__", f"self.{f} = {f} (the constructor argument as given)",
                        (f"`{_u(bad[0])[:100]}`: " if bad else "") + f"field `{f}` of a {qn_c} does not hold the value the spec was written with: the sequence swept for such a variable (its order, its end points, its <var>_values) is not the documented one",
                        getattr(bad[0] if bad else ifn, "lineno", cd.lineno))
        else:
            for f in sorted(fields):
                R.ok(rule, cm.rel, qn_c, f"{f}: dataclass field (stored by the generated __init__ as given)")
        # (b) nothing re-writes a field afterwards
        for mname, (mm, mf) in sorted(meths.items()):
            if mname == "__init__":
                continue
            for st, f, recv, _v in _field_stores(mf, fields):
                R.violation(rule, mm.rel, f"{qn_c}.{mname}", _u(st)[:120], f"`{_u(st)[:100]}` re-writes field `{f}` of a {qn_c} after construction: the materialisation reads spec.{f} as the value the spec was written with (e.g. a descending range lo > hi, a sequence in its given order), so the swept sequence, its order / end points and the published <var>_values differ from the documented ones", getattr(st, "lineno", cd.lineno))
            R.ok(rule, mm.rel, f"{qn_c}.{mname}", "no field of the spec is re-written")
        if "__post_init__" not in meths and init is None:
            R.ok(rule, cm.rel, qn_c, "no __post_init__")
    missing = sorted(read - declared_somewhere)
    if missing:
        raise AnalysisError(f"{qn_m}: reads spec field(s) {missing} that no variable-spec class declares (property / computed attribute: shape not analysed)")
    # (c) the functions that handle specs do not re-write them either
    for rel, qn, FX in readers:
        for st, f, recv, _v in _field_stores(FX.fn, declared_somewhere):
            if any(st is x for x in walk_no_nested(FX.fn)):
                R.violation(rule, rel, qn, _u(st)[:120], f"`{_u(st)[:100]}` re-writes field `{f}` of a variable spec before it is materialised: the swept sequence is not the one the spec declares", getattr(st, "lineno", 0))
        R.ok(rule, rel, qn, "specs are read, not re-written")


# ---------------------------------------------------------------------------------------------------------
# D4 (the published list is the swept list): nobody modifies a variable's sequence in place on the way
# ---------------------------------------------------------------------------------------------------------
# `_materialize_sequences` stores one list object under sequences[var] and created['<var>_values'] (C03-D4-publication
# checks that).  What is published after the loop is therefore the materialised sequence only if everything that handles
# the lists in between - step enumeration with its broadcast cycling, the generated bodies, the publication helper -
# reads them and never extends / sorts / overwrites them in place.  Decided with a small *nesting level* analysis:
# level 2 = a collection whose items are the variables' lists (the mapping, its values(), a shallow copy, a dict built
# from them), level 1 = one variable's list itself, 0 = anything else (a copy of a list holds scalars: level 0).

_SHALLOW = {"list", "tuple", "dict", "sorted", "reversed", "iter", "set", "frozenset", "OrderedDict", "collections.OrderedDict"}
_LIST_MUTATORS = {"append", "extend", "insert", "pop", "remove", "clear", "sort", "reverse", "__setitem__", "__delitem__", "__iadd__", "__imul__"}


def _list_mutations(fn: ast.AST, seeds) -> List[Tuple[ast.AST, str]]:
    """Statements of *fn* (nested comprehensions included, nested defs excluded) that modify in place an object of
    level 1.  *seeds(e)* gives the level of an expression known from outside (a parameter, a call), or None."""
    L: Dict[str, int] = {}

    def level(e: Optional[ast.AST], env: Dict[str, int]) -> int:
        if e is None:
            return 0
        s = seeds(e)
        if s is not None:
            return s
        if isinstance(e, ast.Name):
            return env.get(e.id, L.get(e.id, 0))
        if isinstance(e, ast.NamedExpr):
            return level(e.value, env)
        if isinstance(e, ast.Starred):
            return level(e.value, env)
        if isinstance(e, ast.Subscript):
            if isinstance(e.slice, ast.Slice):
                n = level(e.value, env)
                return n if n >= 2 else 0  # a slice of a list is a copy
            return max(level(e.value, env) - 1, 0)
        if isinstance(e, ast.IfExp):
            return max(level(e.body, env), level(e.orelse, env))
        if isinstance(e, ast.BoolOp):
            return max(level(v, env) for v in e.values)
        if isinstance(e, (ast.List, ast.Tuple, ast.Set)):
            n = max([level(x, env) - (1 if isinstance(x, ast.Starred) else 0) for x in e.elts] or [0])
            return n + 1 if n > 0 else 0
        if isinstance(e, ast.Dict):
            n = max([level(v, env) - (1 if k is None else 0) for k, v in zip(e.keys, e.values)] or [0])
            return n + 1 if n > 0 else 0
        if isinstance(e, (ast.ListComp, ast.SetComp, ast.GeneratorExp, ast.DictComp)):
            env2 = dict(env)
            for g_ in e.generators:
                bind(g_.target, g_.iter, env2, env2)
            n = level(e.value if isinstance(e, ast.DictComp) else e.elt, env2)
            return n + 1 if n > 0 else 0
        if isinstance(e, ast.Call):
            fnm = dotted_name(e.func) or ""
            if isinstance(e.func, ast.Attribute) and e.func.attr in ("values", "copy", "items") and not e.args:
                n = level(e.func.value, env)
                return n if n >= 2 else 0
            if isinstance(e.func, ast.Attribute) and e.func.attr in ("get", "pop", "setdefault"):
                return max(level(e.func.value, env) - 1, max([level(a, env) for a in e.args[1:]] or [0]), 0)
            if fnm in _SHALLOW and len(e.args) == 1:
                n = level(e.args[0], env)
                return n if n >= 2 else 0
            if fnm in ("zip", "enumerate", "itertools.chain", "chain", "map", "filter", "next", "itertools.product", "product", "itertools.zip_longest", "zip_longest", "itertools.cycle", "cycle", "itertools.islice", "islice"):
                return max([level(a, env) for a in e.args] or [0])
            return 0
        return 0

    def bind(target: ast.AST, it: ast.AST, env_read: Dict[str, int], env_write: Dict[str, int]) -> bool:
        """targets of a loop over *it*; True when something was raised"""
        n = level(it, env_read)
        items = isinstance(it, ast.Call) and isinstance(it.func, ast.Attribute) and it.func.attr == "items"
        changed = False
        if items and isinstance(target, (ast.Tuple, ast.List)) and len(target.elts) == 2:
            pairs = [(target.elts[0], 0), (target.elts[1], max(n - 1, 0))]
        else:
            pairs = [(target, max(n - 1, 0))]
        for t, lv in pairs:
            for x in ast.walk(t):
                if isinstance(x, ast.Name) and lv > env_write.get(x.id, 0):
                    env_write[x.id] = lv
                    changed = True
        return changed

    nodes = list(walk_no_nested(fn))
    for _round in range(12):
        changed = False
        for n in nodes:
            if isinstance(n, (ast.Assign, ast.AnnAssign)) and getattr(n, "value", None) is not None:
                lv = level(n.value, {})
                for t in (n.targets if isinstance(n, ast.Assign) else [n.target]):
                    if isinstance(t, ast.Name):
                        if lv > L.get(t.id, 0):
                            L[t.id], changed = lv, True
                    elif isinstance(t, (ast.Tuple, ast.List)):
                        vals = n.value.elts if isinstance(n.value, (ast.Tuple, ast.List)) and len(n.value.elts) == len(t.elts) else None
                        for i, x in enumerate(t.elts):
                            l2 = level(vals[i], {}) if vals is not None else max(lv - 1, 0)
                            for y in ast.walk(x):
                                if isinstance(y, ast.Name) and l2 > L.get(y.id, 0):
                                    L[y.id], changed = l2, True
                    elif isinstance(t, ast.Subscript) and lv > 0:
                        r = t.value
                        if isinstance(r, ast.Name) and lv + 1 > L.get(r.id, 0):
                            L[r.id], changed = lv + 1, True
            elif isinstance(n, ast.NamedExpr) and isinstance(n.target, ast.Name):
                lv = level(n.value, {})
                if lv > L.get(n.target.id, 0):
                    L[n.target.id], changed = lv, True
            elif isinstance(n, ast.For):
                changed = bind(n.target, n.iter, {}, L) or changed
            elif isinstance(n, ast.comprehension):
                changed = bind(n.target, n.iter, {}, L) or changed  # comprehension variables: by name (they are locals of their own, over-approximated)
            elif isinstance(n, ast.Call) and isinstance(n.func, ast.Attribute) and n.func.attr in ("append", "add", "setdefault") and n.args and isinstance(n.func.value, ast.Name):
                lv = level(n.args[-1], {})
                if lv > 0 and lv + 1 > L.get(n.func.value.id, 0):
                    L[n.func.value.id], changed = lv + 1, True
        if not changed:
            break
    out: List[Tuple[ast.AST, str]] = []
    for n in nodes:
        if isinstance(n, ast.Call) and isinstance(n.func, ast.Attribute) and n.func.attr in _LIST_MUTATORS and level(n.func.value, {}) == 1:
            out.append((stmt_of(n), _u(n.func.value)))
        elif isinstance(n, ast.Subscript) and isinstance(n.ctx, (ast.Store, ast.Del)) and level(n.value, {}) == 1:
            out.append((stmt_of(n), _u(n.value)))
        elif isinstance(n, ast.AugAssign) and isinstance(n.target, (ast.Name, ast.Subscript)) and isinstance(n.op, (ast.Add, ast.Mult)) and level(n.target, {}) == 1:
            out.append((n, _u(n.target)))
        elif isinstance(n, ast.Call) and (dotted_name(n.func) or "").split(".")[-1] in ("shuffle", "heappush", "heappop", "heapify", "insort") and n.args and level(n.args[0], {}) == 1:
            out.append((stmt_of(n), _u(n.args[0])))
    seen_ids: Set[int] = set()
    return [(st, r) for st, r in out if not (id(st) in seen_ids or seen_ids.add(id(st)))]


# ---------------------------------------------------------------------------------------------------------
# D1: an algebra of collections aligned with the keys of the sweep's `sequences` mapping
# ---------------------------------------------------------------------------------------------------------

_KEY, _SEQ, _COMP, _IMPL = ("key",), ("seq",), ("comp",), ("sym", "<zip position>")


class _Aligned:
    """Symbolic value of an expression of `_iterate_sweep` (locals already expanded).  Every collection the function
    handles is *aligned with the keys of the sequences mapping*: it has one entry per variable, in some order, and the
    entry is a function of the variable.  Such a collection is represented as

        ("D", order, v)   a dict  {K: v(K)}  over all variable names K, in `order`
        ("L", order, f)   a list / tuple / iterator  [f(K)]  over all variable names K, in `order`

    with order "ins" (the mapping's own order), "sorted" (plain sorted names), "unordered" (a set) or anything else (a
    custom sort), and v / f terms over  ("key",) = K,  ("seq",) = the given sequence of K,  ("comp",) = the component
    of the current product tuple that belongs to K,  ("pos", order) = the position of K in that order, ("len", t),
    ("idx", t, i), ("mod", a, b), ("sym", loop variable), ("const", c), ("maxlen",), ("minlen",), ("tuple", ...),
    ("ifexp", c, a, b), ("cmp", op, a, b), ("rlist", n, var, body) = [body for var in range(n)].
    keys() / values() / items() / zip / enumerate / sorted / list / dict / comprehensions / subscripts are evaluated on
    this representation, so *how* a record or a list is traversed and assembled does not matter, only which entry ends
    up under which name, in which order.  What is not understood becomes an opaque ("raw", ...) term that equals
    nothing the documented forms are compared with."""

    def __init__(self, seqs: str):
        self.seqs = seqs
        self.bounds: Dict[Tuple, Tuple] = {}  # loop index -> the n of the range(n) it runs over

    # -- helpers --------------------------------------------------------------------------------------------
    @staticmethod
    def as_list(v: Tuple) -> Optional[Tuple]:
        if v[0] == "D":
            return ("L", v[1], _KEY)
        if v[0] == "L":
            return v
        return None

    def bind(self, target: ast.AST, value: Tuple, env: Dict[str, Tuple]) -> None:
        if isinstance(target, ast.Name):
            env[target.id] = value
        elif isinstance(target, (ast.Tuple, ast.List)) and value[0] == "tuple" and len(value) - 1 == len(target.elts) and not any(isinstance(x, ast.Starred) for x in target.elts):
            for t, v in zip(target.elts, value[1:]):
                self.bind(t, v, env)
        else:
            for x in ast.walk(target):
                if isinstance(x, ast.Name):
                    env[x.id] = ("raw", f"unpacked {x.id}")

    def subst(self, t, old: Tuple, new: Tuple):
        if t == old:
            return new
        if isinstance(t, tuple):
            return tuple(self.subst(x, old, new) for x in t)
        return t

    def index(self, xv: Tuple, iv: Tuple) -> Tuple:
        if xv[0] == "D":
            return xv[2] if iv == _KEY else ("raw", "dict item", xv, iv)
        if xv[0] == "L":
            if iv == ("pos", xv[1]):
                return xv[2]  # the entry at the position of K in a list of the same order is the entry of K
            if iv[0] == "const":
                return ("at", xv, iv[1])
            return ("idx", xv, iv)
        if xv[0] == "ifexp":
            return ("ifexp", xv[1], self.index(xv[2], iv), self.index(xv[3], iv))
        if xv[0] == "rlist" and self.bounds.get(iv) == xv[1]:
            return self.subst(xv[3], ("sym", xv[2]), iv)  # [body(j) for j in range(n)][i] with i in range(n)
        return ("idx", xv, iv)

    def length(self, xv: Tuple) -> Tuple:
        if xv[0] == "at" and xv[1][0] == "L":
            return ("at", ("L", xv[1][1], ("len", xv[1][2])), xv[2])  # len(first of the values) = first of the lengths
        return ("len", xv)

    def comprehension(self, node: ast.AST, env: Dict[str, Tuple]) -> Tuple:
        gens = node.generators
        raw = ("raw", ast.dump(node))
        if len(gens) != 1 or gens[0].ifs or gens[0].is_async:
            return raw
        it = self.ev(gens[0].iter, env)
        env2 = dict(env)
        lst = self.as_list(it)
        if lst is not None:
            self.bind(gens[0].target, lst[2], env2)
            if isinstance(node, ast.DictComp):
                k, v = self.ev(node.key, env2), self.ev(node.value, env2)
                return ("D", lst[1], v) if k == _KEY else raw
            f = self.ev(node.elt, env2)
            return ("L", "unordered" if isinstance(node, ast.SetComp) else lst[1], f)
        if it[0] == "range" and isinstance(gens[0].target, ast.Name) and isinstance(node, (ast.ListComp, ast.GeneratorExp)):
            var = gens[0].target.id
            env2[var] = ("sym", var)
            return ("rlist", it[1], var, self.ev(node.elt, env2))
        return raw

    # -- evaluation -----------------------------------------------------------------------------------------
    def ev(self, e: ast.AST, env: Dict[str, Tuple]) -> Tuple:
        if isinstance(e, ast.Constant):
            return ("const", e.value)
        if isinstance(e, ast.Name):
            if e.id in env:
                return env[e.id]
            return ("D", "ins", _SEQ) if e.id == self.seqs else ("name", e.id)
        if isinstance(e, (ast.Tuple, ast.List)) and not any(isinstance(x, ast.Starred) for x in e.elts):
            return ("tuple",) + tuple(self.ev(x, env) for x in e.elts)
        if isinstance(e, (ast.ListComp, ast.GeneratorExp, ast.SetComp, ast.DictComp)):
            return self.comprehension(e, env)
        if isinstance(e, ast.IfExp):
            return ("ifexp", self.ev(e.test, env), self.ev(e.body, env), self.ev(e.orelse, env))
        if isinstance(e, ast.Compare) and len(e.ops) == 1:
            return ("cmp", type(e.ops[0]).__name__, self.ev(e.left, env), self.ev(e.comparators[0], env))
        if isinstance(e, ast.BinOp):
            a, b = self.ev(e.left, env), self.ev(e.right, env)
            return ("mod", a, b) if isinstance(e.op, ast.Mod) else ("bin", type(e.op).__name__, a, b)
        if isinstance(e, ast.UnaryOp):
            a = self.ev(e.operand, env)
            if isinstance(e.op, ast.USub) and a[0] == "const" and isinstance(a[1], (int, float)):
                return ("const", -a[1])
            return ("un", type(e.op).__name__, a)
        if isinstance(e, ast.BoolOp):
            return ("bool", type(e.op).__name__) + tuple(self.ev(v, env) for v in e.values)
        if isinstance(e, ast.Subscript):
            if isinstance(e.slice, ast.Slice):
                return ("raw", ast.dump(e))
            return self.index(self.ev(e.value, env), self.ev(e.slice, env))
        if isinstance(e, ast.Call):
            return self.call(e, env)
        return ("raw", ast.dump(e))

    def call(self, e: ast.Call, env: Dict[str, Tuple]) -> Tuple:
        raw = ("raw", ast.dump(e))
        fn = dotted_name(e.func) or ""
        star = [a for a in e.args if isinstance(a, ast.Starred)]
        if isinstance(e.func, ast.Attribute) and e.func.attr in ("keys", "values", "items") and not e.args and not e.keywords:
            xv = self.ev(e.func.value, env)
            if xv[0] == "D":
                return ("L", xv[1], {"keys": _KEY, "values": xv[2], "items": ("tuple", _KEY, xv[2])}[e.func.attr])
            return raw
        if fn in ("itertools.product", "product") and len(e.args) == 1 and star and not e.keywords:
            lst = self.as_list(self.ev(star[0].value, env))
            return ("product", lst[1], lst[2]) if lst else raw
        if fn == "zip" and len(e.args) == 1 and star and not e.keywords:
            lst = self.as_list(self.ev(star[0].value, env))
            return ("zipstar", lst[1], lst[2]) if lst else raw
        if star or any(k.arg is None for k in e.keywords):
            return raw
        args = [self.ev(a, env) for a in e.args]
        if fn == "sorted" and len(args) == 1:
            lst = self.as_list(args[0])
            if lst is None:
                return raw
            by_name = lst[2] == _KEY or (lst[2][0] == "tuple" and len(lst[2]) > 1 and lst[2][1] == _KEY)  # names are unique: pairs sort by name
            if e.keywords or not by_name:
                return ("L", ("sorted by", tuple(f"{k.arg}={ast.dump(k.value)}" for k in e.keywords), lst[2]), lst[2])
            return ("L", "sorted", lst[2])
        if e.keywords:
            return raw
        if fn in ("list", "tuple", "iter") and len(args) == 1:
            return self.as_list(args[0]) or ("call", fn, args[0])
        if fn in ("set", "frozenset") and len(args) == 1:
            lst = self.as_list(args[0])
            return ("L", "unordered", lst[2]) if lst else raw
        if fn == "dict" and len(args) == 1:
            if args[0][0] == "D":
                return args[0]
            lst = self.as_list(args[0])
            if lst and lst[2][0] == "tuple" and len(lst[2]) == 3 and lst[2][1] == _KEY:
                return ("D", lst[1], lst[2][2])
            return raw
        if fn == "zip" and len(args) >= 2:
            ls = [self.as_list(a) for a in args]
            if all(l is not None for l in ls) and len({l[1] for l in ls}) == 1 and ls[0][1] != "unordered":
                return ("L", ls[0][1], ("tuple",) + tuple(l[2] for l in ls))  # same names, same order: aligned entry by entry
            return raw
        if fn == "enumerate" and len(args) == 1:
            lst = self.as_list(args[0])
            return ("L", lst[1], ("tuple", ("pos", lst[1]), lst[2])) if lst and lst[1] != "unordered" else raw
        if fn == "len" and len(args) == 1:
            return self.length(args[0])
        if fn in ("max", "min") and len(args) == 1:
            lst = self.as_list(args[0])
            if lst and lst[2] == ("len", _SEQ):
                return ("maxlen",) if fn == "max" else ("minlen",)
            return raw
        if fn == "map" and len(args) == 2 and args[0] == ("name", "len"):
            lst = self.as_list(args[1])
            return ("L", lst[1], ("len", lst[2])) if lst else raw
        if fn == "range" and (len(args) == 1 or (len(args) == 2 and args[0] == ("const", 0))):
            return ("range", args[-1])
        if fn == "next" and len(args) == 1:
            lst = self.as_list(args[0])
            return ("at", lst, 0) if lst and lst[1] != "unordered" else raw
        if fn in ("all", "any") and len(args) == 1:
            lst = self.as_list(args[0])
            return (fn, lst[2]) if lst else raw
        return ("call", fn or ast.dump(e.func)) + tuple(args)

    # -- the documented forms ---------------------------------------------------------------------------------
    @staticmethod
    def is_lengths(v: Tuple) -> bool:
        return v[0] == "L" and v[2] == ("len", _SEQ)

    def any_length(self, v: Tuple) -> bool:
        """one of the lengths (all of them are equal behind the equal-length guard)"""
        return v in (("maxlen",), ("minlen",)) or (v[0] == "at" and self.is_lengths(v[1]))

    def equal_lengths(self, t: Tuple) -> Optional[bool]:
        """the truth of test *t* says that all sequences have the same length (True) / that they do not (False)"""
        if t[0] == "all" and t[1][0] == "cmp" and t[1][1] == "Eq":
            a, b = t[1][2], t[1][3]
            if (a == ("len", _SEQ) and self.any_length(b)) or (b == ("len", _SEQ) and self.any_length(a)):
                return True
        if t[0] == "any" and t[1][0] == "cmp" and t[1][1] == "NotEq":
            a, b = t[1][2], t[1][3]
            if (a == ("len", _SEQ) and self.any_length(b)) or (b == ("len", _SEQ) and self.any_length(a)):
                return False
        if t[0] != "cmp":
            return None
        op, a, b = t[1], t[2], t[3]
        flip = {"Lt": "Gt", "Gt": "Lt", "LtE": "GtE", "GtE": "LtE", "Eq": "Eq", "NotEq": "NotEq"}
        if a[0] == "const" and op in flip:
            op, a, b = flip[op], b, a
        if a[0] == "len" and a[1][0] == "L" and a[1][1] == "unordered" and a[1][2] == ("len", _SEQ) and b[0] == "const":
            # the number of distinct lengths (at least one: the mapping is not empty)
            return {("NotEq", 1): False, ("Gt", 1): False, ("GtE", 2): False, ("Eq", 1): True, ("LtE", 1): True, ("Lt", 2): True}.get((op, b[1]))
        if {a, b} == {("minlen",), ("maxlen",)}:
            if op == "Eq":
                return True
            if op == "NotEq" or (op, a) in (("Lt", ("minlen",)), ("Gt", ("maxlen",))):
                return False
        return None

    @staticmethod
    def _longest(c: Tuple, pol: bool) -> bool:
        """test *c* having truth value *pol* guarantees len(seq of K) == the longest length"""
        if c[0] != "cmp":
            return False
        op, a, b = c[1], c[2], c[3]
        if a == ("maxlen",) and b == ("len", _SEQ):
            op, a, b = {"Lt": "Gt", "Gt": "Lt", "LtE": "GtE", "GtE": "LtE"}.get(op, op), b, a
        if a != ("len", _SEQ) or b != ("maxlen",):
            return False
        return (op, pol) in (("Eq", True), ("NotEq", False), ("Lt", False), ("GtE", True))

    def cycled_entry(self, v: Tuple, i: Tuple) -> bool:
        """v is item i of the sequence of K cycled up to the longest length: seq[i % len(seq)], where `seq[i]` will do
        on the branches that guarantee len(seq) == the longest length (i runs below it)"""
        def walk(t: Tuple, conds: Tuple) -> bool:
            if t[0] == "ifexp":
                return walk(t[2], conds + ((t[1], True),)) and walk(t[3], conds + ((t[1], False),))
            if t == ("idx", _SEQ, ("mod", i, ("len", _SEQ))):
                return True
            return t == ("idx", _SEQ, i) and any(self._longest(c, pol) for c, pol in conds)
        return walk(v, ())

    def position_entry(self, v: Tuple, i: Tuple) -> bool:
        """v is item i of the sequence of K, i running below the common length of all sequences (seq[i % len(seq)] is
        seq[i] then)"""
        if v[0] == "ifexp":
            return self.position_entry(v[2], i) and self.position_entry(v[3], i)
        return v in (("idx", _SEQ, i), ("idx", _SEQ, ("mod", i, ("len", _SEQ))))

    def column_length(self, g: Tuple) -> Optional[Tuple]:
        """the common length of the columns [g(K)] handed to zip(*...), when it can be told"""
        if g == _SEQ:
            return ("minlen",)
        ns = set()

        def walk(t: Tuple, conds: Tuple) -> None:
            if t[0] == "ifexp":
                walk(t[2], conds + ((t[1], True),))
                walk(t[3], conds + ((t[1], False),))
            elif t[0] == "rlist":
                ns.add(t[1])
            elif t == _SEQ and any(self._longest(c, pol) for c, pol in conds):
                ns.add(("maxlen",))
            else:
                ns.add(None)
        walk(g, ())
        return ns.pop() if len(ns) == 1 and None not in ns else None


def run(repo: Repo, R: Report) -> None:
    R.assume(
        "itertools.product varies the rightmost sequence fastest; numpy.linspace/logspace return the documented values for their arguments",
        "the wrapped processor applied to the merged parameters is what 'element i' means",
    )
    R.undecided("numerical content of range variables and of expression values; the typed collection's own behaviour")
    _REPO[0] = repo
    ROLE.update(sweep_roles(repo))
    IT, MAT, PUB = ROLE["iterate"], ROLE["materialise"], ROLE["publish"]

    # ------------------------------------------------------------------ D1
    # Decided per *scenario* (combinatorial / by_position+broadcast / by_position without broadcast): the branch
    # edges that are impossible in the scenario are blocked, and what every reachable `yield` produces - the loop
    # it sits in and the yielded value, with locals expanded to their reaching definitions - is compared with the
    # documented step sequence.
    r_it = R.rule("C03-D1-step-enumeration", "combinatorial: product over the sequences taken in plain sorted variable-name order, each step dict(zip(names, combo)); by_position: unequal lengths rejected unless broadcast, broadcast cycles seq[i % len(seq)] up to the longest, steps are positions 0..n-1", 8)
    it = repo.func(SWEEP, IT)
    if not it.args.args:
        raise AnalysisError(f"{IT}: the sequences parameter was not found")
    seqs = it.args.args[0].arg
    all_p = [a.arg for a in it.args.args + it.args.kwonlyargs]
    bc = "broadcast" if "broadcast" in all_p else None
    md = "mode" if "mode" in all_p else None
    if bc is None or md is None:
        raise AnalysisError(f"{IT}: mode / broadcast parameters not found (they are passed by keyword)")
    F1 = Flow(nfunc(repo, SWEEP, IT, copyprop="all", loops=True), loops=True)
    g1 = F1.g

    def a_bypos(e: ast.AST) -> Optional[bool]:
        if kmatch(f"{md} == 'by_position'", e) or kmatch(f"'by_position' == {md}", e) or kmatch(f"{md} != 'combinatorial'", e):
            return True
        if kmatch(f"{md} != 'by_position'", e) or kmatch(f"'by_position' != {md}", e) or kmatch(f"{md} == 'combinatorial'", e) or kmatch(f"'combinatorial' == {md}", e):
            return False
        return None

    def a_bc(e: ast.AST) -> Optional[bool]:
        if dotted_name(e) == bc or kany((f"{bc} is True", f"bool({bc})", f"{bc} == True", f"{bc} is not False", f"{bc} != False"), e):
            return True
        if kany((f"{bc} is False", f"{bc} == False", f"{bc} is not True", f"{bc} != True"), e):
            return False
        return None

    def neg(atom):
        return lambda e: (None if atom(e) is None else not atom(e))

    def scenario(bypos: bool, bcast: Optional[bool]):
        """truth of the atomic tests on mode / broadcast in one of the three documented cases"""
        def known(e: ast.AST) -> Optional[bool]:
            v = a_bypos(e)
            if v is not None:
                return v == bypos
            v = a_bc(e) if bcast is not None else None
            return None if v is None else v == bcast
        return known

    K_C, K_PB, K_PN = scenario(False, None), scenario(True, True), scenario(True, False)
    # the branch edges that cannot be taken in each case: a test whose truth is known in the case - a plain test on
    # mode / broadcast or a compound one such as `by_position and broadcast`, `not broadcast and <lengths differ>` -
    # has only one way out.  (An edge that guarantees the opposite of the case is one of them, so nothing has to be
    # known about *where* the function separates the cases: nested ifs, guard clauses with early return and compound
    # tests are the same thing here.)
    SC_C, SC_PB, SC_PN = (frozenset(F1.impossible(k)) for k in (K_C, K_PB, K_PN))
    # anchor: the function does tell the three cases apart somewhere (a dispatch on mode / broadcast the atoms above do
    # not read is an unknown shape; a function that really ignores one of them fails the comparisons below)
    if SC_C == SC_PB or SC_PB == SC_PN:
        raise AnalysisError(f"{IT}: the branches on mode / broadcast were not found")
    ynodes = [y for y in walk_no_nested(F1.fn) if isinstance(y, ast.Yield)]

    def yields(sc) -> List[ast.Yield]:
        live = F1.reachable(sc)
        return [y for y in ynodes if F1.nid(y) in live]

    def loop_of(y: ast.AST) -> Optional[ast.For]:
        return next((a for a in ancestors(y) if isinstance(a, ast.For) and any(a is x for x in walk_no_nested(F1.fn))), None)

    A = _Aligned(seqs)

    def step_loop(y: ast.AST, sc) -> List[Tuple[Tuple, Optional[Tuple], Tuple]]:
        """(what the loop around yield *y* runs over, what is yielded, the position index) in scenario *sc*, as values of the aligned-collection
        algebra - one pair per combination of reaching definitions.  The yielded value is None when it cannot be told
        (no loop, no plain loop variable)."""
        lp = loop_of(y)
        if lp is None or y.value is None:
            return [(("raw", "no loop"), None, _IMPL)]
        out: List[Tuple[Tuple, Optional[Tuple], Tuple]] = []
        for x in F1.expand(lp.iter, F1.nid(lp), sc):
            itv = A.ev(x, {})
            env: Dict[str, Tuple] = {}
            A.bounds = {}
            idx = _IMPL
            known = isinstance(lp.target, ast.Name)
            if known and itv[0] == "range":
                idx = env[lp.target.id] = ("sym", lp.target.id)
                A.bounds[idx] = itv[1]
            elif known and itv[0] == "product":
                env[lp.target.id] = ("L", itv[1], _COMP)  # the product tuple: one component per name, in the order of the sequences
            elif known and itv[0] == "zipstar":
                n = A.column_length(itv[2])
                if n is not None:
                    A.bounds[_IMPL] = n
                env[lp.target.id] = ("L", itv[1], A.index(itv[2], _IMPL))  # the tuple of the items at one position of every column
                itv = ("range", n if n is not None else ("raw", "unknown column length"))
            else:
                known = False
            vals = F1.expand(y.value, F1.nid(y), sc) if known else []
            out += [(itv, A.ev(v, env), idx) for v in vals] or [(itv, None, idx)]
        return out or [(("raw", "no iterable"), None, _IMPL)]

    # combinatorial
    ys = yields(SC_C)
    ok_sorted = ok_align = ok_prod = ok_zip = bool(ys)
    for y in ys:
        for itv, val, _i in step_loop(y, SC_C):
            prod = itv[0] == "product"
            ok_prod = ok_prod and prod
            ok_align = ok_align and prod and itv[2] == _SEQ
            ok_sorted = ok_sorted and prod and itv[1] == "sorted"
            ok_zip = ok_zip and prod and val == ("D", itv[1], _COMP)
    R.check(ok_sorted, r_it, SWEEP, IT, "names = sorted(sequences.keys())", "variable names are not taken in plain sorted order (custom key / mapping order): the element sequence is permuted", it.lineno)
    R.check(ok_align, r_it, SWEEP, IT, "seqs = [sequences[v] for v in names]", "sequences are not aligned with the sorted names", it.lineno)
    R.check(ok_prod, r_it, SWEEP, IT, "itertools.product(*seqs)", "combinatorial steps are not the Cartesian product of the sorted sequences", it.lineno)
    R.check(ok_zip, r_it, SWEEP, IT, "yield dict(zip(names, combo))", "a combinatorial step does not pair sorted names with the product tuple", it.lineno)

    # by_position without broadcast: the equal-length guard
    def a_equal(e: ast.AST) -> Optional[bool]:
        return A.equal_lengths(A.ev(e, {}))

    ys = yields(SC_PN)
    E_eq = F1.edges(a_equal, SC_PN) | F1.edges_in(a_equal, K_PN, SC_PN)
    E_ne = F1.edges(neg(a_equal), SC_PN) | F1.edges_in(neg(a_equal), K_PN, SC_PN)
    seen = g1.reach([g1.entry], blocked_edges=set(SC_PN) | E_eq)
    leak = [F1.nid(y) for y in ys if F1.nid(y) in seen]
    R.check(bool(ys) and bool(E_eq) and not leak, r_it, SWEEP, IT, "by_position yields only after broadcast or the equal-length test", "positions are aligned although lengths differ and broadcast is off", it.lineno, g1.path_to(seen, leak[0]) if leak else [])
    ve_raises = {n.id for n in g1.nodes if n.kind == "stmt" and isinstance(n.ast, ast.Raise) and n.ast.exc is not None and (call_name(n.ast.exc) if isinstance(n.ast.exc, ast.Call) else dotted_name(n.ast.exc)) == "ValueError"}
    starts = [t for (nid_, lab) in E_ne for t, l in g1.succ[nid_] if l == lab]
    open_starts = [s for s in starts if s not in ve_raises]
    seen = g1.reach(open_starts, blocked=ve_raises, blocked_edges=set(SC_PN)) if open_starts else {}
    escaped = [x for x in [g1.ret_exit, g1.exc_exit] + [F1.nid(y) for y in ynodes] if x in seen]
    ok = bool(starts) and not escaped
    R.check(ok, r_it, SWEEP, IT, "unequal lengths raise ValueError", "unequal lengths are not rejected with ValueError", it.lineno, g1.path_to(seen, escaped[0]) if escaped else [])

    # by_position with broadcast: unequal lengths are what broadcast is for - the steps are still produced when the
    # lengths differ (no path to a yield needs an edge that guarantees equal lengths)
    ys = yields(SC_PB)
    E_eq_b = F1.edges(a_equal, SC_PB) | F1.edges_in(a_equal, K_PB, SC_PB)
    seen = g1.reach([g1.entry], blocked_edges=set(SC_PB) | E_eq_b)
    R.check(any(F1.nid(y) in seen for y in ys), r_it, SWEEP, IT, "broadcast accepts sequences of different lengths", "with broadcast on, sequences of different lengths are rejected (or produce no steps) instead of being cycled", it.lineno)
    # positions 0 .. longest-1, every record {name: seq[i % len(seq)]} in the mapping's order
    ok = bool(ys)
    for y in ys:
        for itv, val, i in step_loop(y, SC_PB):
            ok = ok and itv == ("range", ("maxlen",)) and val is not None and val[0] == "D" and val[1] == "ins" and A.cycled_entry(val[2], i)
    R.check(ok, r_it, SWEEP, IT, "broadcast: seq[i % len(seq)] for i in range(max(len))", "broadcast does not cycle shorter sequences up to the longest one", it.lineno)
    # without broadcast: positions 0 .. n-1 of the (equally long) sequences, every record {name: seq[i]} in the mapping's order
    ys = yields(SC_PN)
    ok = bool(ys)
    for y in ys:
        for itv, val, i in step_loop(y, SC_PN):
            ok = ok and itv[0] == "range" and A.any_length(itv[1]) and val is not None and val[0] == "D" and val[1] == "ins" and A.position_entry(val[2], i)
    R.check(ok, r_it, SWEEP, IT, "for i in range(step_count): yield {var: sequences[var][i]}", "by_position steps are not the aligned positions in order", it.lineno)

    # ------------------------------------------------------------------ D2
    r_m = R.rule("C03-D2-merge-precedence", "call parameters start from the provided (node/default) values and are then overwritten by the expression outputs", 1)
    # (decided below, once the generated bodies have shown which function merges what: the function is found by its
    #  role - called in the step loop, its result is what the element's parameters are filtered from - not by its name)
    _expression_scope(repo, R)

    # ------------------------------------------------------------------ D3
    # Each generated body is analysed on its normal form with value expansion: the element call is found by its
    # role, and the parameters it receives are expanded back to the kwargs / step / class attributes they are
    # computed from, so temporaries, statement order of independent statements and keyword order do not matter.
    r_v = R.rule("C03-D3-variants", "the three generated bodies (source, operation, probe) materialise, drop from-context keys, select provided kwargs by presence, iterate with the class' mode/broadcast, evaluate every expression on the step, merge, filter to the element's parameter names and call the element once per step in order; they agree with each other on these steps", 24)
    r_inst = R.rule("C03-D3-element-instance-per-step", "element i is the wrapped processor applied to the input with the merged parameters of step i and nothing else: the processor object whose process() yields the element of a step is constructed (self._element(..)) inside that step of the loop, on every path to the call - no object made before the loop (or in an earlier step) is applied again, so no per-object state is carried from one step to the next; a source is applied through its class", 3)
    variants = variant_bodies(repo)
    create_fn = repo.func(SWEEP, CREATE)
    mod_sweep = repo.module(SWEEP)
    merge_hits: Dict[int, Tuple[object, ast.AST, bool]] = {}
    merge_names: Set[str] = set()
    for _qn, f_ in variants:
        for c_ in calls_in(f_):
            hit_ = _callee(repo, mod_sweep, c_)
            if hit_ is None or id(hit_[1]) in merge_hits:
                if hit_ is not None:
                    merge_names.add((call_name(c_) or "").split(".")[-1])
                continue
            a_ = hit_[1].args
            ps_ = [p_.arg for p_ in a_.posonlyargs + a_.args + a_.kwonlyargs][1 if hit_[2] else 0:]
            if len(ps_) == 2 and not a_.vararg and not a_.kwarg and _merge_layers(normalize(repo, hit_[0], hit_[1], copyprop="all"), set(ps_)) is not None:
                merge_hits[id(hit_[1])] = hit_
                merge_names.add((call_name(c_) or "").split(".")[-1])
    merge_names = {n_ for n_ in merge_names if any(h_[1].name == n_ for h_ in merge_hits.values())}
    if len(merge_hits) != 1:
        raise AnalysisError(f"{len(merge_hits)} functions that layer two mappings are called by the generated sweep bodies (the one merge of provided and computed parameters confirmed by reading)")
    merge_mod, merge_fn, merge_skip = next(iter(merge_hits.values()))
    repo.consulted.add(merge_mod.rel)
    merge_pos = [p_.arg for p_ in merge_fn.args.args][1 if merge_skip else 0:]
    merge_params = merge_pos + [p_.arg for p_ in merge_fn.args.kwonlyargs]
    merge_roles: Set[Tuple[str, str]] = set()
    setting_attrs: Dict[str, Dict[str, str]] = {}
    KEEP = (MAT, IT, PUB) + tuple(sorted(merge_names))
    forms: Dict[str, Dict[str, str]] = {}
    flows: Dict[str, Tuple[Flow, ast.For]] = {}
    allowed_attrs: Dict[str, str] = {}
    read_attrs: Dict[str, Dict[str, str]] = {}
    for qn, f in variants:
        d: Dict[str, str] = {}
        S = f.args.args[0].arg if f.args.args else ("cls" if f.name == "_get_data" else "self")
        cdef = parent(f)
        # class attributes by role: the ones bound to the factory's `element` / `collection_output` argument
        A_EL, A_CO = _attr_bound_to(cdef, "element"), _attr_bound_to(cdef, "collection_output")
        reads: Dict[str, str] = {}
        kwname = f.args.kwarg.arg if f.args.kwarg else "kwargs"
        nfv = normalize(repo, repo.module(SWEEP), f, keep=KEEP, copyprop="all")
        wv = _unroll_sweep_comprehension(clone(nfv))
        wv._parent = parent(nfv)  # type: ignore[attr-defined]
        FV = Flow(wv)
        gv = FV.g
        body_calls = [c for c in ast.walk(FV.fn) if isinstance(c, ast.Call) and any(c is x for x in walk_no_nested(FV.fn))]
        # the element call
        if f.name == "_get_data":
            els = [(c, m) for c in body_calls for m in [kmatch(f"{S}.{A_EL}.get_data(**_P_)", c)] if m]
        else:
            data_p = f.args.args[1].arg
            els = []
            for c in body_calls:
                m = kmatch(f"_I_.process({data_p}, **_P_)", c)
                if m and all(isinstance(x, ast.Call) and dotted_name(x.func) == f"{S}.{A_EL}" for x in FV.expand(m["_I_"], FV.nid(c)) or [None]):
                    els.append((c, m))
        loop = None
        if len(els) == 1:
            loop = next((a for a in ancestors(els[0][0]) if isinstance(a, ast.For)), None)
        if loop is None:
            loop = next((n for n in walk_no_nested(FV.fn) if isinstance(n, ast.For) and any(call_attr(c) == IT or call_name(c) == IT for x in FV.expand(n.iter, FV.nid(n)) for c in ast.walk(x) if isinstance(c, ast.Call))), None)
        if loop is None:
            raise AnalysisError(f"{qn}: sweep loop not found")
        flows[qn] = (FV, loop)
        step = loop.target.id if isinstance(loop.target, ast.Name) else "__missing__"
        its = FV.expand(loop.iter, FV.nid(loop))
        # the settings the steps are enumerated with: attributes of the class, whichever they are called - that each of them
        # holds the factory's `mode` / `broadcast` / `vars` argument as given is decided on the class body (_declared_settings)
        mi = [kmatch(f"{IT}(_SEQ_, broadcast=_BC_, mode=_MD_)", x) for x in its]
        mi = [m if m and _self_attr(m["_BC_"], S) and _self_attr(m["_MD_"], S) else None for m in mi]
        mats = [kmatch(f"{MAT}(params={kwname}, vars=_VS_)[0]", m["_SEQ_"]) if m else None for m in mi]
        mats = [m if m and _self_attr(m["_VS_"], S) else None for m in mats]
        for role_, got in (("mode", {_self_attr(m["_MD_"], S) for m in mi if m}), ("broadcast", {_self_attr(m["_BC_"], S) for m in mi if m}), ("vars", {_self_attr(m["_VS_"], S) for m in mats if m})):
            if len(got) == 1:
                reads[role_] = next(iter(got))
        if isinstance(cdef, ast.ClassDef) and {"mode", "broadcast", "vars"} <= set(reads):
            setting_attrs[cdef.name] = {k_: reads[k_] for k_ in ("mode", "broadcast", "vars")}
        mat_calls = [c for c in body_calls if call_name(c) == MAT]
        ok = len(mat_calls) == 1 and bool(mats) and all(m is not None for m in mats)
        R.check(ok, r_v, SWEEP, qn, "_materialize_sequences(vars=S._vars, params=kwargs)", "the sequences that are iterated are not the ones materialised from the class' variables and the call's parameters", f.lineno)
        d["materialise"] = "|".join(sorted(_unify(m["_SEQ_"], FV.fn) for m in mi if m))
        # the keys that are dropped are read from one attribute of the class (found by this read; the three classes bind it alike)
        pops = [lp for lp in walk_no_nested(FV.fn) if isinstance(lp, ast.For) and _self_attr(lp.iter, S) and kmatch(f"for _k_ in _FC_:\n    {kwname}.pop(_k_, None)", lp) is not None]
        if len(pops) == 1:
            reads["from_context"] = _self_attr(pops[0].iter, S)
        ok = len(pops) == 1 and len(mat_calls) == 1
        if ok:
            # popped on every path to the element call, and only after the sequences were materialised from kwargs
            mat_id, pop_id = FV.nid(mat_calls[0]), FV.nid(pops[0])
            ok = pop_id not in _reach(gv, [gv.entry], {mat_id}) and FV.nid(loop) not in _reach(gv, [gv.entry], {pop_id})
        R.check(ok, r_v, SWEEP, qn, "from-context keys are removed from kwargs after materialisation", "from-context sequences leak into the element's parameters (or are removed before being read)", f.lineno)
        d["pop"] = _unify(pops[0] if pops else None, FV.fn)
        ok = bool(mi) and all(m is not None for m in mi)
        R.check(ok, r_v, SWEEP, qn, "_iterate_sweep(sequences, mode=S._mode, broadcast=S._broadcast)", "a variant iterates with a different mode / broadcast than the sweep declares", loop.lineno)
        d["iterate"] = "|".join(sorted(_unify(x, FV.fn) for x in its))
        # parameters of the element call, expanded
        P = els[0][1]["_P_"] if len(els) == 1 else None
        pxs = FV.expand(P, FV.nid(els[0][0])) if P is not None else []
        m_f = [kmatch("{_k_: _v_ for (_k_, _v_) in _C_.items() if _k_ in _AN_}", x) for x in pxs]
        m_f = [m if m and _self_attr(m["_AN_"], S) else None for m in m_f]
        got_an = {_self_attr(m["_AN_"], S) for m in m_f if m}
        if len(got_an) == 1:
            reads["allowed"] = next(iter(got_an))
            if isinstance(cdef, ast.ClassDef):
                allowed_attrs[cdef.name] = reads["allowed"]
        pat_b_any = f"{{_n_: {kwname}[_n_] for _n_ in _BF_ if _ANY_}}"
        pat_e = f"{{_p_: _fn_(**{step}) for (_p_, _fn_) in _CE_.items()}}"

        def merge_call(C: ast.AST) -> Optional[Dict[str, ast.AST]]:
            """C is a call of the merge function: its two arguments by role (the provided values / the expression outputs)"""
            if not isinstance(C, ast.Call):
                return None
            hit = _callee(repo, mod_sweep, C, create_fn)
            b = _bind_args(C, merge_pos) if hit is not None and hit[1] is merge_fn else None
            if b is None or set(b) != set(merge_params):
                return None
            p0, p1 = merge_params
            if kmatch(pat_b_any, b[p1]) is not None or (kmatch(pat_e, b[p0]) is not None and kmatch(pat_b_any, b[p0]) is None):
                p0, p1 = p1, p0
            merge_roles.add((p0, p1))
            return {"_B_": b[p0], "_E_": b[p1]}

        m_c = [merge_call(m["_C_"]) if m else None for m in m_f]
        m_b = [kmatch(f"{{_n_: {kwname}[_n_] for _n_ in _BF_ if _n_ in {kwname}}}", m["_B_"]) if m else None for m in m_c]
        m_b_any = [kmatch(f"{{_n_: {kwname}[_n_] for _n_ in _BF_ if _ANY_}}", m["_B_"]) if m else None for m in m_c]
        m_e = [kmatch(pat_e, m["_E_"]) if m else None for m in m_c]
        m_e = [m if m and _self_attr(m["_CE_"], S) else None for m in m_e]
        got_ce = {_self_attr(m["_CE_"], S) for m in m_e if m}
        if len(got_ce) == 1:
            reads["compiled"] = next(iter(got_ce))
        allm = lambda ms_: bool(ms_) and all(x is not None for x in ms_)
        bfs = {name_of(m, "_BF_") for m in m_b_any if m}
        bf = next(iter(bfs)) if len(bfs) == 1 else None
        bf_defs = [v for v in assigned_value(create_fn, bf)] if bf else []
        bk_ok = allm(m_b) and len(bf_defs) == 1 and isinstance(bf_defs[0], ast.BinOp) and isinstance(bf_defs[0].op, ast.BitOr)  # the factory's (required | optional) external names
        R.check(bk_ok, r_v, SWEEP, qn, "base_kwargs = {n: kwargs[n] for n in base_kwargs_filter if n in kwargs}", "provided parameters are selected by value instead of by presence (an explicit None / falsy node parameter is dropped and the element's default is used)" if allm(m_b_any) and not allm(m_b) else "provided parameters are not selected from the call's kwargs by presence", loop.lineno)
        d["base_kwargs"] = "|".join(sorted(_unify(m["_B_"], FV.fn) for m in m_c if m))
        R.check(allm(m_e), r_v, SWEEP, qn, "expr_outputs = {p: fn(**step) for p, fn in S._compiled_exprs.items()}", "expressions are not all evaluated on this step's variable values", loop.lineno)
        R.check(allm(m_c), r_v, SWEEP, qn, "call_params = _merge_call_parameters(base_kwargs=base_kwargs, expression_outputs=expr_outputs)", "a variant merges provided and computed parameters differently", loop.lineno)
        R.check(allm(m_f), r_v, SWEEP, qn, "call_params filtered to S._allowed_names", "parameters are not filtered to the element's signature (or filtered by something else)", loop.lineno)
        d["params"] = "|".join(sorted(_unify(x, FV.fn) for x in pxs))
        # element call once per step, appended in order
        apps = [c for c in body_calls if call_attr(c) == "append" and any(a is loop for a in ancestors(c))]
        ok = len(els) == 1 and len(apps) == 1 and len(apps[0].args) == 1 and isinstance(apps[0].func.value, ast.Name)
        lst = apps[0].func.value.id if ok else "__missing__"
        if ok:
            el_call = els[0][0]
            ax = FV.expand(apps[0].args[0], FV.nid(apps[0]))
            ok = apps[0].args[0] is el_call or (bool(ax) and all(ast.dump(x) == ast.dump(y) for x in ax for y in FV.expand(el_call, FV.nid(el_call))))
            ok = ok and next((a for a in ancestors(el_call) if isinstance(a, (ast.For, ast.While))), None) is loop and next((a for a in ancestors(apps[0]) if isinstance(a, (ast.For, ast.While))), None) is loop
            # every iteration appends: no path from the loop head back to it (or out of the loop) that skips the append
            body_start = [t for t, l in gv.succ[FV.nid(loop)] if l == "T"]
            seen = _reach(gv, body_start, {FV.nid(apps[0])})
            ok = ok and FV.nid(loop) not in seen and gv.ret_exit not in seen and gv.exc_exit not in seen
            ok = ok and not any(isinstance(x, ast.Break) for x in ast.walk(loop))
            inits = [FV._def_value(lst, dn) for dn in FV.rdefs(lst, FV.nid(loop))[0]]
            ok = ok and bool(inits) and all(v is not None and kany(["[]", "list()"], v) is not None for v in inits)
            ok = ok and [s_ for s_, _r in mutation_sites(FV.fn, {lst})] == [apps[0]]
        R.check(ok, r_v, SWEEP, qn, "results.append(<element>(**call_params)) once per step", "the wrapped processor is not applied exactly once per step, in step order, to the input data with the merged parameters", loop.lineno)
        # the object that is invoked for step i is made in step i
        if f.name == "_process_logic":
            ok_i, line_i, why_i = len(els) == 1, loop.lineno, "the processor object a step is applied with was not found"
            if ok_i:
                el_call, recv = els[0][0], els[0][1]["_I_"]
                at, head = FV.nid(el_call), FV.nid(loop)
                lnodes = _loop_nodes(FV, loop) - {head}
                if isinstance(recv, ast.Name):
                    # every path from the loop head (one step taken) to the call binds the receiver on the way - by what the
                    # element-call discovery above has shown to be a construction `self._element(..)`
                    in_loop = {d for d in FV.defnodes.get(recv.id, []) if d in lnodes}
                    body_start = [t for t, l in gv.succ[head] if l == "T"]
                    ok_i = at in lnodes and at not in _reach(gv, body_start, in_loop)
                    outer = [d for d in FV.rdefs(recv.id, at)[0] if d not in lnodes]
                    if outer:
                        line_i = getattr(gv.nodes[outer[0]].ast, "lineno", loop.lineno)
                else:
                    ok_i = isinstance(recv, ast.Call) and at in lnodes  # constructed in the statement that applies it
                why_i = f"the wrapped processor is instantiated outside the step loop (`{_u(recv)[:60]}` is bound before the loop / not on every path through an iteration) and one object is applied to several steps: per-object state it keeps between process() calls (buffers, counters, lazily initialised members) flows from step i to step i+1, so element i is no longer the wrapped processor applied to the input with the parameters of step i alone"
            R.check(ok_i, r_inst, SWEEP, qn, "element_instance = self._element(..) inside the step loop; element_instance.process(data, **call_params)", why_i, line_i)
        else:
            R.check(len(els) == 1, r_inst, SWEEP, qn, "cls._element.get_data(**call_params): the source is applied through its class, no processor object is kept", "the call that produces a source element was not found", loop.lineno)
        rets =[n for n in walk_no_nested(FV.fn) if isinstance(n, ast.Return)]
        is_probe = "Probe" in qn
        rx = [x for r_ in rets for x in (FV.expand(r_.value, FV.nid(r_), keep=(lst,)) if r_.value is not None else [ast.Constant(value=None)])]
        if is_probe:
            ok = bool(rx) and all(dotted_name(x) == lst for x in rx)
            what = "a probe sweep does not return the plain list of results in order"
        else:
            ok = bool(rx) and all(kmatch(f"{S}.{A_CO}.from_list({lst})", x) is not None for x in rx)
            what = "the typed collection is not built from the results in step order"
        ok = ok and all(FV.nid(r_) not in _reach(gv, [gv.entry], {FV.nid(loop)}) for r_ in rets)
        R.check(ok, r_v, SWEEP, qn, "return " + ("results" if is_probe else "S._collection_output.from_list(results)"), what, f.lineno)
        forms[qn] = d
        read_attrs[qn] = reads
    # D2: the merge function layers the expression outputs over the provided values
    mqn = qualname_of(merge_fn)
    layers = _merge_layers(normalize(repo, merge_mod, merge_fn, copyprop="all"), set(merge_params))
    ok = len(merge_roles) == 1 and layers is not None
    if ok:
        base_p, expr_p = next(iter(merge_roles))
        ok = all(ls == [x for x in (base_p, expr_p) if x not in empty] for ls, empty in layers)
    R.check(ok, r_m, merge_mod.rel, mqn, "merged = dict(base_kwargs); merged.update(expression_outputs)", "computed-by-expression values no longer take precedence over provided ones" if len(merge_roles) == 1 else "the generated bodies do not agree on which argument of the merge carries the provided values and which the expression outputs", merge_fn.lineno)
    names = list(forms)
    for key in ("materialise", "pop", "base_kwargs", "iterate", "params"):
        vals = {forms[n][key] for n in names}
        R.check(len(vals) == 1, r_v, SWEEP, CREATE, f"variants agree on step `{key}`", f"the generated source / operation / probe bodies differ in `{key}`", 0)
    # the class attributes the bodies read (found by the reads above) are bound alike by the three generated classes: the
    # source, operation and probe variant of one sweep filter, evaluate and drop the same things
    for role_ in ("from_context", "compiled", "allowed"):  # (mode / broadcast / vars: each class is decided on its own, _declared_settings)
        bound = []
        for qn, f in variants:
            a_ = read_attrs.get(qn, {}).get(role_)
            v_ = _class_bindings(parent(f)).get(a_) if a_ and isinstance(parent(f), ast.ClassDef) else None
            if v_ is not None:  # (an attribute a class body does not bind is inherited: not this rule's business)
                bound.append(ast.dump(_strip_cast(v_)))
        R.check(len(set(bound)) <= 1, r_v, SWEEP, CREATE, f"the generated classes bind the attribute read as `{role_}` to the same value of the factory", f"the source / operation / probe classes bind the attribute their bodies read as `{role_}` to different values of the factory", 0)
    _element_parameters(repo, R, allowed_attrs)
    _declared_settings(repo, R, setting_attrs)

    # ------------------------------------------------------------------ D4
    r_p = R.rule("C03-D4-publication", "every variant declares <var>_values for each variable, materialisation stores exactly those keys, each variant hands them to the run context (or leaves them for the node), and the probe node publishes and declares them", 9)
    create = repo.func(SWEEP, CREATE)
    gck = [n for n in ast.walk(create) if isinstance(n, FuncNode) and n.name == "get_created_keys"]

    def values_keys(x: ast.AST) -> bool:
        """x is the list of '<var>_values' for every sweep variable of the class, in the variables' order"""
        m = kany(["list(_X_)", "tuple(_X_)"], x)
        if m and isinstance(m["_X_"], (ast.ListComp, ast.GeneratorExp)):
            x = m["_X_"]
        if not isinstance(x, (ast.ListComp, ast.GeneratorExp)) or len(x.generators) != 1 or x.generators[0].ifs or not isinstance(x.generators[0].target, ast.Name):
            return False
        v = x.generators[0].target.id
        cv_ = f"{VA[1]}.{VA[0]}"
        over = kany([cv_, f"{cv_}.keys()", f"list({cv_})", f"list({cv_}.keys())", f"tuple({cv_})"], x.generators[0].iter) is not None
        return over and kany([f"f'{{{v}}}_values'", f"{v} + '_values'", f"'{{}}_values'.format({v})", f"'%s_values' % {v}", f"str({v}) + '_values'"], x.elt) is not None

    def declares_values(x: ast.AST) -> bool:
        """the <var>_values list is part of the list *x* evaluates to (possibly joined with the element's own keys): an
        operand of a concatenation / a starred part of a display - not merely mentioned, e.g. in a filter"""
        if values_keys(x):
            return True
        if isinstance(x, ast.BinOp) and isinstance(x.op, ast.Add):
            return declares_values(x.left) or declares_values(x.right)
        if isinstance(x, (ast.List, ast.Tuple)):
            return any(isinstance(e, ast.Starred) and declares_values(e.value) for e in x.elts)
        if isinstance(x, ast.IfExp):
            return declares_values(x.body) and declares_values(x.orelse)
        m = kany(["list(_X_)", "tuple(_X_)", "list(dict.fromkeys(_X_))"], x)
        return bool(m) and declares_values(m["_X_"])

    VA = ["__unbound__", "cls"]
    for f in gck:
        # the variables are read from the attribute the class' own sweep body materialises them from
        VA[0] = setting_attrs.get(getattr(parent(f), "name", ""), {}).get("vars", "__unbound__")
        VA[1] = f.args.args[0].arg if f.args.args else "cls"
        FK = Flow(normalize(repo, repo.module(SWEEP), f, copyprop="all", loops=True))
        rk = [x for r_ in walk_no_nested(FK.fn) if isinstance(r_, ast.Return) and r_.value is not None for x in FK.expand(r_.value, FK.nid(r_))]
        ok = bool(rk) and all(declares_values(x) for x in rk)
        R.check(ok, r_p, SWEEP, qualname_of(f), "declares [f'{var}_values' for var in cls._vars]", "declared created keys are not <var>_values for every sweep variable", f.lineno)
    if len(gck) != 3:
        raise AnalysisError(f"{len(gck)} get_created_keys templates in the sweep factory (3 confirmed by reading)")
    ms = repo.func(SWEEP, MAT)
    rets = [n for n in walk_no_nested(ms) if isinstance(n, ast.Return) and isinstance(n.value, ast.Tuple) and len(n.value.elts) == 2]
    if not rets:
        raise AnalysisError("_materialize_sequences: (sequences, created) return not found")
    SQ, CRV = dotted_name(rets[0].value.elts[0]), dotted_name(rets[0].value.elts[1])
    vars_p = ms.args.kwonlyargs[0].arg if ms.args.kwonlyargs else "vars"
    vloop = next((n for n in walk_no_nested(ms) if isinstance(n, ast.For) and (match(f"{vars_p}.items()", n.iter) or match(vars_p, n.iter) or match(f"{vars_p}.keys()", n.iter))), None)
    if vloop is None:
        raise AnalysisError("_materialize_sequences: the loop over the sweep variables was not found")
    if isinstance(vloop.target, ast.Tuple) and len(vloop.target.elts) == 2 and all(isinstance(e, ast.Name) for e in vloop.target.elts):
        var, spec = vloop.target.elts[0].id, vloop.target.elts[1].id
    elif isinstance(vloop.target, ast.Name):
        var, spec = vloop.target.id, "__spec__"
    else:
        raise AnalysisError("_materialize_sequences: unexpected target of the loop over the sweep variables")
    # the swept and the published sequence: one store each (a chained assignment counts for both), same value,
    # and every iteration that completes performs both
    F4 = Flow(nfunc(repo, SWEEP, MAT, copyprop="all"))
    pairs = [(t, n) for n in walk_no_nested(F4.fn) if isinstance(n, ast.Assign) for t in n.targets]
    st_c = [(t, n) for t, n in pairs if kmatch(f"{CRV}[f'{{{var}}}_values']", t) or kmatch(f"{CRV}[{var} + '_values']", t)]
    st_s = [(t, n) for t, n in pairs if kmatch(f"{SQ}[{var}]", t)]
    vl4 = next((n for n in walk_no_nested(F4.fn) if isinstance(n, ast.For) and _u(n.iter) == _u(vloop.iter)), None)
    ok = len(st_c) == 1 and len(st_s) == 1 and vl4 is not None
    if ok:
        xc, xs = F4.expand(st_c[0][1].value, F4.nid(st_c[0][1])), F4.expand(st_s[0][1].value, F4.nid(st_s[0][1]))
        ok = st_c[0][1] is st_s[0][1] or sorted(ast.dump(x) for x in xc) == sorted(ast.dump(x) for x in xs)
        body_start = [t for t, l in F4.g.succ[F4.nid(vl4)] if l == "T"]
        for _t, stn in (st_c[0], st_s[0]):
            ok = ok and F4.nid(vl4) not in _reach(F4.g, body_start, {F4.nid(stn)})
    R.check(ok, r_p, SWEEP, MAT, "created[f'{var}_values'] = sequences[var] = seq_list for every variable", "the published sequence is not the one that is swept (or is missing for some variable kind)", ms.lineno)
    left_attrs: List[Set[str]] = []
    for qn, f in variants:
        FV, loop = flows[qn]
        gv = FV.g
        calls_v = [c for c in ast.walk(FV.fn) if isinstance(c, ast.Call) and any(c is x for x in walk_no_nested(FV.fn))]

        def is_created(e: ast.AST, at: ast.AST) -> bool:
            xs = FV.expand(e, FV.nid(at))
            return bool(xs) and all(kmatch(f"{MAT}(params=_ANY_, vars=_ANY_)[1]", x) is not None for x in xs)

        pubs = [c for c in calls_v if call_name(c) == PUB and len(c.args) == 2 and is_created(c.args[0], c)]
        after = [t for t, l in gv.succ[FV.nid(loop)] if l == "F"]
        # every normal return after the sweep loop has handed the sequences over
        ok = bool(pubs) and bool(after) and gv.ret_exit not in after and gv.ret_exit not in _reach(gv, after, {FV.nid(c) for c in pubs})
        if f.name == "_process_logic":
            # left on the processor object for the node: stored under an attribute of self (whichever it is called - that it
            # is the attribute the nodes read is decided below, on the nodes' side)
            S_ = f.args.args[0].arg
            recs = [n for n in walk_no_nested(FV.fn) if isinstance(n, ast.Assign) and any(_self_attr(t, S_) for t in n.targets) and is_created(n.value, n)]
            left_attrs.append({_self_attr(t, S_) for n in recs for t in n.targets if _self_attr(t, S_)})
            ok = ok and bool(recs) and gv.ret_exit not in _reach(gv, [gv.entry], {FV.nid(n) for n in recs})
        R.check(ok, r_p, SWEEP, qn, "_publish_created_context(created, <context>) after the loop", "materialised sequences are not handed to the run context by this variant", f.lineno)
    # the attribute the operation / probe bodies leave the created map under is the one the nodes publish from
    shared_attrs = set.intersection(*left_attrs) if left_attrs else set()
    nodes_tree = repo.module(NODES).tree
    mentioned = {x.attr for x in ast.walk(nodes_tree) if isinstance(x, ast.Attribute)} | {x.value for x in ast.walk(nodes_tree) if isinstance(x, ast.Constant) and isinstance(x.value, str)}
    handed = sorted(a_ for a_ in shared_attrs if a_ in mentioned)
    if handed:
        CREATED[0] = handed[0] if CREATED[0] not in handed else CREATED[0]
    R.check(bool(handed), r_p, SWEEP, CREATE, "the operation and probe bodies leave the created map on the processor under the attribute the nodes read", f"the generated operation / probe bodies leave the materialised sequences under {sorted(shared_attrs) or 'no common attribute'}, which the pipeline nodes never read: a swept probe's <var>_values cannot be published by its node", 0)
    pc = repo.func(SWEEP, PUB)
    cp, xp = pc.args.args[0].arg, pc.args.args[1].arg
    FP = Flow(nfunc(repo, SWEEP, PUB, copyprop="all"))
    ok = False
    for lp in [n for n in walk_no_nested(FP.fn) if isinstance(n, ast.For)]:
        hdr = kmatch(f"for (_k_, _v_) in {cp}.items():\n    pass", ast.For(target=lp.target, iter=lp.iter, body=[ast.Pass()], orelse=[]))
        hdr2 = kany([f"for _k_ in {cp}:\n    pass", f"for _k_ in {cp}.keys():\n    pass"], ast.For(target=lp.target, iter=lp.iter, body=[ast.Pass()], orelse=[]))
        if hdr:
            ws = [c for c in ast.walk(lp) if isinstance(c, ast.Call) and kmatch(f"{xp}.set_value(_k_, _v_)", c, hdr)]
        elif hdr2:
            ws = [c for c in ast.walk(lp) if isinstance(c, ast.Call) and kmatch(f"{xp}.set_value(_k_, {cp}[_k_])", c, hdr2)]
        else:
            continue
        if ws:
            body_start = [t for t, l in FP.g.succ[FP.nid(lp)] if l == "T"]
            w_ids = {FP.nid(c) for c in ws}
            ok = FP.nid(lp) not in _reach(FP.g, body_start, w_ids) and not any(isinstance(x, ast.Break) for x in ast.walk(lp))
    R.check(ok, r_p, SWEEP, PUB, "every created key is written with set_value", "some <var>_values keys are not written", pc.lineno)
    # the published list is the swept list: nothing on the way from materialisation to publication modifies it in place
    r_pi = R.rule("C03-D4-published-sequence-intact", "the list published as <var>_values is the very object that is swept (sequences[var] and created['<var>_values'] share it): step enumeration (broadcast cycling included), the generated bodies and the publication helper only read the variables' lists - none extends, sorts, overwrites or otherwise modifies one in place, so what is published after the loop is the materialised sequence", 5)

    def seeds_param(pname: str):
        return lambda e: 2 if isinstance(e, ast.Name) and e.id == pname and isinstance(e.ctx, ast.Load) else None

    def seeds_call(e: ast.AST) -> Optional[int]:
        return 3 if isinstance(e, ast.Call) and (call_name(e) or "").split(".")[-1] == MAT else None

    handlers = [(IT, F1.fn, seeds_param(seqs)), (PUB, FP.fn, seeds_param(cp))] + [(qn, flows[qn][0].fn, seeds_call) for qn, _f in variants]
    for hqn, hfn, sd in handlers:
        muts = _list_mutations(hfn, sd)
        for st, recv in muts:
            R.violation(r_pi, SWEEP, hqn, _u(st)[:120], f"`{_u(st)[:100]}` modifies `{recv}` - a variable's materialised list, the same object that is published as <var>_values - in place: the published sequence (and what a later from_context sweep reads from it) is no longer the variable's materialised sequence", getattr(st, "lineno", 0))
        if not muts:
            R.ok(r_pi, SWEEP, hqn, "the variables' lists are only read")
    r_np = R.rule("C03-D4-node-publication", "a node that publishes the processor's materialised sequences itself writes every (key, sequence) pair of processor._last_created_sequences into the payload's context after process(): the only pair it may skip is the node's own context key, and the only reason not to enter the loop is that nothing was materialised", 4)
    pqn = "_ProbeContextInjectorNode._process_single_item_with_context"
    pn = repo.func(NODES, pqn)
    loops = _node_publication(repo, R, r_np, pqn)
    R.check(loops > 0, r_p, NODES, pqn, "publishes processor._last_created_sequences", "a swept probe declares <var>_values but the probe node never writes them into the context", pn.lineno)
    _node_publication(repo, R, r_np, "_DataOperationContextInjectorProbeNode._process_single_item_with_context")
    pk = repo.func(NODES, "_ProbeContextInjectorNode.get_created_keys")
    ok = "cls.processor" in _u(pk) and "get_created_keys" in _u(pk) and "cls.context_key" in _u(pk)
    R.check(ok, r_p, NODES, "_ProbeContextInjectorNode.get_created_keys", "context_key + processor's created keys", "the probe node does not declare the keys its swept processor creates", pk.lineno)
    for qn in ("_DataNode._process_single_item_with_context", "_DataOperationContextInjectorProbeNode._process_single_item_with_context"):
        f = repo.func(NODES, qn)
        # found by role: a store to the attribute observer_context of what is the node's processor at that point (directly,
        # through setattr or through a local that holds the processor), on every path to the processor's process() call
        FO = Flow(nfunc(repo, NODES, qn, copyprop="all"))

        def is_processor(e: ast.AST, at, depth: int = 0) -> bool:
            """the object *e* denotes at statement / CFG node *at* is self.processor (identity: a local alias counts,
            also one the attribute is stored through)"""
            nid_ = at if isinstance(at, int) else FO.nid(at)
            if dotted_name(e) == "self.processor":
                return True
            if not isinstance(e, ast.Name) or depth > 6:
                return False
            ds, entry = FO.rdefs(e.id, nid_)
            vals = [(FO._def_value(e.id, d), d) for d in ds]
            return bool(ds) and not entry and all(v is not None and is_processor(v, d, depth + 1) for v, d in vals)

        sets: Set[int] = set()
        runs: Set[int] = set()
        for n in walk_no_nested(FO.fn):
            if isinstance(n, ast.Assign) and any(isinstance(t, ast.Attribute) and t.attr == "observer_context" and is_processor(t.value, n) for t in n.targets):
                sets.add(FO.nid(n))
            elif isinstance(n, ast.Call):
                m = kmatch("setattr(_P_, 'observer_context', _C_)", n)
                if m and is_processor(m["_P_"], n):
                    sets.add(FO.nid(n))
                elif call_attr(n) == "process" and isinstance(n.func, ast.Attribute) and is_processor(n.func.value, n):
                    runs.add(FO.nid(n))
        ok = bool(sets) and bool(runs) and not (runs & set(_reach(FO.g, [FO.g.entry], sets)))
        R.check(ok, r_p, NODES, qn, "processor.observer_context = context before process()", "the swept processor has no context to publish <var>_values into", f.lineno)

    # ------------------------------------------------------------------ D5
    _declaration_kept(repo, R)
    r_y = R.rule("C03-D5-yaml-conversion", "YAML variable specs map to the documented spec classes and defaults: [a, b] of two numbers -> range with 10 steps; other lists and {values} -> sequence as given; {lo, hi, steps[, scale=linear][, endpoint=True]} -> range; {from_context: key}; the [a, b] shorthand is applied to the bare-list spelling only; an option the conversion leaves out falls to the spec class' own default, which is the documented one", 7)
    cv = repo.func(PREP, "_convert_var_specs")
    FY = Flow(nfunc(repo, PREP, "_convert_var_specs", copyprop="all"))
    vl = next((n for n in walk_no_nested(FY.fn) if isinstance(n, ast.For) and isinstance(n.target, ast.Tuple) and len(n.target.elts) == 2 and isinstance(n.target.elts[1], ast.Name)), None)
    if vl is None:
        raise AnalysisError("_convert_var_specs: the loop over (variable, spec) pairs was not found")
    sp = vl.target.elts[1].id
    calls_y = [c for c in ast.walk(FY.fn) if isinstance(c, ast.Call) and any(c is x for x in walk_no_nested(FY.fn))]

    def y_is(call: ast.Call, e: Optional[ast.AST], *patterns: str) -> bool:
        if e is None:
            return False
        xs = FY.expand(e, FY.nid(call))
        return bool(xs) and all(kany(patterns, x) is not None for x in xs)

    def is_spec(x: ast.AST) -> bool:
        return isinstance(x, ast.Name) and x.id == sp

    rs = [c for c in calls_y if call_attr(c) == "RangeSpec" or call_name(c) == "RangeSpec"]
    # the other side of the conversion: the spec class the calls construct.  Positional arguments are bound in the order
    # of its fields, and a field the conversion leaves out takes the class' default - which therefore has to be the
    # documented one (scale 'linear', endpoint True), or the [a, b] shorthand and every spec that omits the option change.
    rcls = None
    for c in rs:
        try:
            hit = repo.resolve_name(repo.module(PREP), c.func, cv)
        except Exception:
            hit = None
        if hit is not None and isinstance(hit[1], ast.ClassDef):
            rcls = hit
    if rs and rcls is None:
        raise AnalysisError("_convert_var_specs: the class constructed for range specs was not found in the repo")
    r_fields: List[Tuple[str, Optional[ast.AST], ast.AST]] = []
    if rcls is not None:
        repo.consulted.add(rcls[0].rel)
        init = next((st for st in rcls[1].body if isinstance(st, FuncNode) and st.name == "__init__"), None)
        if init is not None:
            pa = init.args.posonlyargs + init.args.args
            dfl = [None] * (len(pa) - len(init.args.defaults)) + list(init.args.defaults)
            r_fields = [(a_.arg, d_, a_) for a_, d_ in list(zip(pa, dfl))[1:]]
        else:
            for st in rcls[1].body:
                if isinstance(st, ast.AnnAssign) and isinstance(st.target, ast.Name) and "ClassVar" not in _u(st.annotation):
                    d_ = st.value
                    m_ = kany(["field(default=_X_)", "dataclasses.field(default=_X_)"], d_) if d_ is not None else None
                    r_fields.append((st.target.id, m_["_X_"] if m_ else d_, st))
    r_names = [f_[0] for f_ in r_fields]
    if rs and not {"lo", "hi", "steps", "scale", "endpoint"} <= set(r_names):
        raise AnalysisError(f"{rcls[1].name if rcls else 'RangeSpec'}: fields lo, hi, steps, scale, endpoint not found ({r_names})")
    omitted: Set[str] = set()
    two, full = [], []
    for c in rs:
        b = _bind_args(c, r_names, lambda e, _c=c: FY.record_of(e, FY.nid(_c)))
        if b is not None:
            omitted |= {"scale", "endpoint"} - set(b)
        if b is None or not {"lo", "hi", "steps"} <= set(b) <= {"lo", "hi", "steps", "scale", "endpoint"}:
            continue
        if (y_is(c, b["lo"], f"float({sp}[0])") and y_is(c, b["hi"], f"float({sp}[1])") and y_is(c, b["steps"], "10")
                and ("scale" not in b or y_is(c, b["scale"], "'linear'")) and ("endpoint" not in b or y_is(c, b["endpoint"], "True"))):
            two.append(c)
        if (y_is(c, b["lo"], f"float({sp}['lo'])") and y_is(c, b["hi"], f"float({sp}['hi'])") and y_is(c, b["steps"], f"int({sp}['steps'])")
                and _field_read(FY, b.get("scale"), FY.nid(c), is_spec, "scale", ["'linear'"]) and _field_read(FY, b.get("endpoint"), FY.nid(c), is_spec, "endpoint", ["True"])):
            full.append(c)
    R.check(len(two) == 1, r_y, PREP, "_convert_var_specs", "[a, b] -> RangeSpec(lo=a, hi=b, steps=10)", "the two-number shorthand is not a 10-step linear range from a to b", cv.lineno)
    R.check(len(full) == 1 and len(rs) == 2, r_y, PREP, "_convert_var_specs", "{lo, hi, steps, scale='linear', endpoint=True} -> RangeSpec field by field", "range fields are swapped or documented defaults changed", cv.lineno)
    for f_ in sorted(omitted):
        name_, d_, st_ = next(x for x in r_fields if x[0] == f_)
        doc = {"scale": ["'linear'"], "endpoint": ["True"]}[f_]
        R.check(d_ is not None and kany(doc, d_) is not None, r_y, rcls[0].rel, rcls[1].name, f"{f_} defaults to {doc[0]} (left to the class by the conversion)", f"`{_u(st_)[:80]}`: the conversion of YAML range specs leaves `{f_}` to the class default, which is not the documented {doc[0]}: the [a, b] shorthand (and every spec that omits the option) expands to a different sequence", getattr(st_, "lineno", cv.lineno))
    # the [a, b] shorthand is a property of the *bare list* spelling: where it is applied, the value tested is the
    # variable's own YAML value (the loop variable), not something unwrapped from a mapping such as {values: [a, b]}
    for c in two:
        ds, _entry = FY.rdefs(sp, FY.nid(c))
        bad_rd = [FY.g.nodes[d_] for d_ in ds if FY.g.nodes[d_].kind != "for"]
        R.check(bool(ds) and not bad_rd, r_y, PREP, "_convert_var_specs", "the two-number shorthand applies to the variable's own (bare list) value only", f"`{bad_rd[0].text() if bad_rd else sp}` re-binds the spec before the [a, b] shorthand is applied: an explicit sequence written as a mapping (values: [a, b]) is expanded to a 10-step range instead of being swept as given", bad_rd[0].line if bad_rd else cv.lineno)
    ss = [c for c in calls_y if call_attr(c) == "SequenceSpec" or call_name(c) == "SequenceSpec"]
    ss_args = [_bind_args(c, ["values"], lambda e, _c=c: FY.record_of(e, FY.nid(_c))) for c in ss]
    ok = len(ss) == 2 and all(b is not None and set(b) == {"values"} for b in ss_args) and sorted(("bare" if y_is(c, b["values"], sp) else "mapping" if y_is(c, b["values"], f"{sp}['values']") else "?") for c, b in zip(ss, ss_args)) == ["bare", "mapping"]
    R.check(ok, r_y, PREP, "_convert_var_specs", "lists / {values} -> SequenceSpec(values as given)", "explicit sequences are transformed (sorted, deduplicated, ...)", cv.lineno)
    fc = [c for c in calls_y if call_attr(c) == "FromContext" or call_name(c) == "FromContext"]
    fc_args = [_bind_args(c, ["key"], lambda e, _c=c: FY.record_of(e, FY.nid(_c))) for c in fc]
    ok = len(fc) == 1 and fc_args[0] is not None and set(fc_args[0]) == {"key"} and y_is(fc[0], fc_args[0]["key"], f"{sp}['from_context']")
    R.check(ok, r_y, PREP, "_convert_var_specs", "{from_context: key} -> FromContext(key)", "from_context variables do not read the declared key", cv.lineno)
    # the fields of the derive.parameter_sweep block as the factory receives them: decided on the normal form with value
    # expansion per scenario (field present / absent), so the spelling of the default does not matter (_field_read)
    pnc = repo.func(PREP, "preprocess_node_config")
    FN5 = Flow(nfunc(repo, PREP, "preprocess_node_config", keep=("_convert_var_specs",), copyprop="all"))
    calls_n = [c for c in ast.walk(FN5.fn) if isinstance(c, ast.Call) and any(c is x for x in walk_no_nested(FN5.fn))]
    cc = next((c for c in calls_n if call_name(c) == "ParametricSweepFactory.create" or call_attr(c) == "create" and "ParametricSweepFactory" in _u(c.func)), None)
    cfn = repo.func(SWEEP, CREATE).args
    cb = _bind_args(cc, [a_.arg for a_ in cfn.posonlyargs + cfn.args if a_.arg != "cls"], lambda e: FN5.record_of(e, FN5.nid(cc))) if cc is not None else None

    def is_block(x: ast.AST) -> bool:
        """x is the derive.parameter_sweep mapping of the node configuration"""
        m = kany(["_D_['parameter_sweep']", "_D_.get('parameter_sweep')", "_D_.get('parameter_sweep', _ANY_)"], x)
        return bool(m) and any(isinstance(c, ast.Constant) and c.value == "derive" for c in ast.walk(m["_D_"]))

    def block_field(e: Optional[ast.AST], at_call: ast.AST, key: str, *defaults: str) -> bool:
        return _field_read(FN5, e, FN5.nid(at_call), is_block, key, defaults)

    ok = cc is not None and cb is not None
    if ok:
        vx = FN5.expand(cb["vars"], FN5.nid(cc)) if "vars" in cb else []
        ok = (bool(vx) and all(kmatch("_convert_var_specs(_V_)", x) is not None for x in vx)
              and block_field(cb.get("parametric_expressions"), cc, "parameters", "{}", "dict()")
              and block_field(cb.get("broadcast"), cc, "broadcast", "False")
              and block_field(cb.get("mode"), cc, "mode", "'combinatorial'")
              and cb.get("collection_output") is not None and cb.get("element") is not None and cb.get("element_kind") is not None)
    R.check(ok, r_y, PREP, "preprocess_node_config", "create(element, kind, collection, vars, expressions, mode='combinatorial', broadcast=False) from the block's fields", "a field of the derive.parameter_sweep block is not passed on to the factory as declared (or a documented default changed)", pnc.lineno)
    cvcs = [c for c in calls_n if call_name(c) == "_convert_var_specs"]
    ok = len(cvcs) == 1 and len(cvcs[0].args) == 1 and not cvcs[0].keywords and block_field(cvcs[0].args[0], cvcs[0], "variables", "None")
    R.check(ok, r_y, PREP, "preprocess_node_config", "variables converted from the block's `variables` mapping", "sweep variables are not taken from derive.parameter_sweep.variables", pnc.lineno)

    # ------------------------------------------------------------------ D6
    # Decided on the normal form (helpers inlined) with value expansion: every np.linspace / np.logspace call,
    # wherever it was moved to, is looked at by the *role* of its arguments and by the branch conditions under
    # which it is evaluated (if / elif, guard clauses and conditional expressions alike).
    r_mat = R.rule("C03-D6-materialisation-arguments", "linspace/logspace receive lo, hi, steps, endpoint in their roles; explicit sequences are taken as given; from_context reads params[key] behind the missing / non-sequence / empty guards", 5)
    params_p = ms.args.kwonlyargs[1].arg if len(ms.args.kwonlyargs) > 1 else "params"
    nms = nfunc(repo, SWEEP, MAT, copyprop="all")

    def canon_spec(e: ast.AST) -> ast.AST:
        """`vars[var]` is the variable's spec, however the loop is written"""
        class T(ast.NodeTransformer):
            def visit_Subscript(self, n):
                self.generic_visit(n)
                if kmatch(f"{vars_p}[{var}]", n):
                    return ast.copy_location(ast.Name(id=spec, ctx=ast.Load()), n)
                return n
        return T().visit(e) if any(isinstance(x, ast.Subscript) for x in ast.walk(e)) else e

    F6 = Flow(nms, post=canon_spec)
    g6 = F6.g
    KINDS = ("RangeSpec", "SequenceSpec", "FromContext")

    def a_kind(kind: str):
        def atom(e: ast.AST) -> Optional[bool]:
            m = kmatch(f"isinstance({spec}, _K_)", e) or kmatch(f"type({spec}) is _K_", e) or kmatch(f"type({spec}) == _K_", e)
            if not m:
                return None
            k = (dotted_name(m["_K_"]) or "").split(".")[-1]
            if k == kind:
                return True
            return False if k in KINDS else None  # the three spec classes are unrelated: being one excludes the others
        return atom

    def a_linear(e: ast.AST) -> Optional[bool]:
        if kmatch(f"{spec}.scale == 'linear'", e) or kmatch(f"'linear' == {spec}.scale", e) or kmatch(f"{spec}.scale != 'log'", e):
            return True
        if kmatch(f"{spec}.scale != 'linear'", e) or kmatch(f"{spec}.scale == 'log'", e) or kmatch(f"'log' == {spec}.scale", e):
            return False
        return None

    def a_endpoint(e: ast.AST) -> Optional[bool]:
        if kmatch(f"{spec}.endpoint", e) or kmatch(f"{spec}.endpoint is True", e) or kmatch(f"bool({spec}.endpoint)", e):
            return True
        if kmatch(f"{spec}.endpoint is False", e):
            return False
        return None

    def neg6(atom):
        return lambda e: (None if atom(e) is None else not atom(e))

    def arg_is(call: ast.Call, e: Optional[ast.AST], *patterns: str) -> bool:
        if e is None:
            return False
        xs = F6.expand(e, F6.nid(call))
        return bool(xs) and all(kany(patterns, x) is not None for x in xs)

    all_calls = [c for c in ast.walk(F6.fn) if isinstance(c, ast.Call) and any(c is x for x in walk_no_nested(F6.fn))]
    lin = [c for c in all_calls if call_name(c) in ("np.linspace", "numpy.linspace")]
    ok = bool(lin)
    bad_c: Optional[ast.Call] = None
    for c in lin:
        b = _bind_args(c, ["start", "stop", "num", "endpoint"], lambda e, _c=c: F6.record_of(e, F6.nid(_c)))
        good = (b is not None and set(b) == {"start", "stop", "num", "endpoint"} and arg_is(c, b["start"], f"{spec}.lo") and arg_is(c, b["stop"], f"{spec}.hi")
                and arg_is(c, b["num"], f"{spec}.steps") and arg_is(c, b["endpoint"], f"{spec}.endpoint") and F6.holds_at(c, a_linear))
        if not good:
            ok, bad_c = False, bad_c or c
    R.check(ok, r_mat, SWEEP, MAT, "np.linspace(spec.lo, spec.hi, spec.steps, endpoint=spec.endpoint)", f"`{_u(bad_c)[:100]}`: a linear range is not built from (lo, hi, steps, endpoint) in their roles, for scale == 'linear' only" if bad_c is not None else "a linear range is not built from (lo, hi, steps, endpoint) in their roles", getattr(bad_c, "lineno", ms.lineno))
    logs = [c for c in all_calls if call_name(c) in ("np.logspace", "numpy.logspace")]
    # The upper bound is decided per scenario (endpoint set / not set): the branch edges that are impossible in the
    # scenario are blocked, the stop argument is expanded along the remaining paths (so an if / else, a re-assignment
    # behind a guard and a conditional expression are the same thing) and its algebraic normal form is compared with
    # the documented bound: log10(hi) when the end point is included (or left to logspace's own endpoint=False), and
    # log10(lo) + (log10(hi) - log10(lo)) * (steps - 1) / steps - the bound shrunk by one step *in log space* - otherwise.
    val6, _lg6 = _range_algebra(spec)
    sA, sB, sN = _r(_p_sym("A")), _r(_p_sym("B")), _r(_p_sym("n"))
    shrunk = _r_add(sA, _r_div(_r_mul(_r_add(sB, sA, -1), _r_add(sN, _r(_p_const(1)), -1)), sN))
    SCEN6 = (("endpoint set", frozenset(F6.edges(neg6(a_endpoint))), neg6(a_endpoint), True), ("endpoint not set", frozenset(F6.edges(a_endpoint)), a_endpoint, False))
    n_end = n_open = 0
    bad_c = None
    why6 = ""
    for c in logs:
        b = _bind_args(c, ["start", "stop", "num", "endpoint", "base"], lambda e, _c=c: F6.record_of(e, F6.nid(_c)))
        good = (b is not None and {"start", "stop", "num"} <= set(b) <= {"start", "stop", "num", "endpoint", "base"} and arg_is(c, b["start"], f"np.log10({spec}.lo)", f"numpy.log10({spec}.lo)")
                and arg_is(c, b["num"], f"{spec}.steps") and ("base" not in b or kany(["10", "10.0"], b["base"]) is not None)
                and F6.holds_at(c, neg6(a_linear)))
        if good:
            only = {True: F6.holds_at(c, a_endpoint), False: F6.holds_at(c, neg6(a_endpoint))}  # the call is evaluated in one scenario only
            for label, be, anti, ep in SCEN6:
                if only[not ep] and not only[ep]:
                    continue
                if F6.nid(c) not in F6.reachable(be):
                    continue
                # does logspace itself include the end point in this scenario?
                incl: Set[bool] = set()
                for x in (F6.expand(b["endpoint"], F6.nid(c), be) if "endpoint" in b else [ast.Constant(value=True)]):
                    for leaf, conds in _split_ifexp(x):
                        if any(lab in _edges(t, anti) for t, lab in conds):
                            continue
                        if isinstance(leaf, ast.Constant) and isinstance(leaf.value, bool):
                            incl.add(leaf.value)
                        elif a_endpoint(leaf) is True:
                            incl.add(ep)
                        else:
                            good, why6 = False, why6 or f"its endpoint argument `{_u(leaf)[:60]}` is neither a constant nor the spec's endpoint"
                if not good or len(incl) != 1:
                    good, why6 = False, why6 or f"its endpoint argument is not decided when {label}"
                    break
                inc = incl.pop()
                if ep and not inc:
                    good, why6 = False, why6 or "the end point is left out although the spec asks for it"
                    break
                want, wtxt = (shrunk, "log10(lo) + (log10(hi) - log10(lo)) * (steps - 1) / steps (hi pulled back by one step in log space)") if (not ep and inc) else (sB, "log10(hi)")
                for x in F6.expand(b["stop"], F6.nid(c), be):
                    for leaf, conds in _split_ifexp(x):
                        if any(lab in _edges(t, anti) for t, lab in conds):
                            continue  # an arm taken in the other scenario only
                        v = val6(leaf)
                        if v is None:
                            raise AnalysisError(f"_materialize_sequences: the upper bound `{_u(leaf)[:100]}` of a log range ({label}) is not arithmetic over lo / hi / steps / log10 that the normal form covers")
                        if v == LINEAR:
                            good, why6 = False, why6 or f"when {label} its upper bound `{_u(leaf)[:100]}` is shortened on the linear span of lo..hi and only then passed through log10: the grid is geometric with the wrong ratio; documented: {wtxt}"
                        elif not _r_eq(v, want):
                            good, why6 = False, why6 or f"when {label} its upper bound `{_u(leaf)[:100]}` is not {wtxt}"
                        elif ep:
                            n_end += 1
                        else:
                            n_open += 1
        if not good:
            bad_c = bad_c or c
    R.check(bad_c is None and n_end >= 1 and n_open >= 1, r_mat, SWEEP, MAT, "np.logspace(log10(lo), log10(hi | adjusted), steps)", (f"`{_u(bad_c)[:100]}`: " if bad_c is not None else "") + "a log range is not built from log10(lo), log10(hi), steps (hi itself exactly when endpoint is set" + (f"): {why6}" if why6 else ")"), getattr(bad_c, "lineno", ms.lineno))
    expl = [c for c in all_calls if kmatch("list(_X_)", c) and arg_is(c, c.args[0], f"{spec}.values")]
    ok = bool(expl) and all(F6.holds_at(c, a_kind("SequenceSpec")) for c in expl)
    R.check(ok, r_mat, SWEEP, MAT, "seq_list = list(spec.values)", "explicit sequences are reordered / deduplicated (or taken for another kind of variable)", ms.lineno)
    # from_context: every path of a FromContext variable to the store sequences[var] = ... passes the guards
    stores6 = [n for n in walk_no_nested(F6.fn) if isinstance(n, ast.Assign) and any(kmatch(f"{SQ}[{var}]", t) for t in n.targets)]
    vl6 = next((n for n in walk_no_nested(F6.fn) if isinstance(n, ast.For) and (kmatch(f"{vars_p}.items()", n.iter) or kmatch(vars_p, n.iter) or kmatch(f"{vars_p}.keys()", n.iter))), None)
    ok = len(stores6) == 1 and vl6 is not None
    path: List[str] = []
    if ok:
        s_id = F6.nid(stores6[0])
        SC_FC = frozenset(F6.edges(neg6(a_kind("FromContext"))))
        V = [f"{params_p}[{spec}.key]"]
        LV = V + [f"list({V[0]})", f"tuple({V[0]})"]

        def a_present(e):
            return True if kmatch(f"{spec}.key in {params_p}", e) else False if kmatch(f"{spec}.key not in {params_p}", e) else None

        def a_string(e):
            m = kmatch("isinstance(_X_, _T_)", e)
            if m and kany(V, m["_X_"]) and {dotted_name(x) for x in (m["_T_"].elts if isinstance(m["_T_"], ast.Tuple) else [m["_T_"]])} == {"str", "bytes"}:
                return True
            return None

        def a_sequence(e):
            m = kmatch("isinstance(_X_, _T_)", e)
            if m and kany(V, m["_X_"]) and (dotted_name(m["_T_"]) or "").split(".")[-1] == "Sequence":
                return True
            return None

        def a_nonempty(e):
            if kany(LV, e):
                return True
            m = kany(["len(_X_) == 0", "len(_X_) < 1", "0 == len(_X_)"], e)
            if m and kany(LV, m["_X_"]):
                return False
            m = kany(["len(_X_) > 0", "len(_X_) != 0", "len(_X_) >= 1", "len(_X_)"], e)
            if m and kany(LV, m["_X_"]):
                return True
            return None

        starts = [t for t, l in g6.succ[F6.nid(vl6)] if l == "T"]
        live = g6.reach(starts, blocked_edges=set(SC_FC))
        ok = s_id in live
        for atom in (a_present, neg6(a_string), a_sequence, a_nonempty):
            ge = F6.edges(atom, SC_FC)
            seen = g6.reach(starts, blocked_edges=set(SC_FC) | ge)
            if not ge or s_id in seen:
                ok = False
                path = path or (g6.path_to(seen, s_id) if s_id in seen else [])
        reads = [x for x in ast.walk(F6.fn) if isinstance(x, ast.Subscript) and kany(V, canon_spec(clone(x)))]
        ok = ok and bool(reads) and all(F6.holds_at(x, a_kind("FromContext")) for x in reads)
    R.check(ok, r_mat, SWEEP, MAT, "from_context: params[spec.key] with missing / non-sequence / empty guards", "a from_context variable is read without its guards (or from another key)", ms.lineno, path)
    ok = bool(lin) and bool(logs) and all(F6.holds_at(c, a_kind("RangeSpec")) for c in lin + logs)
    R.check(ok, r_mat, SWEEP, MAT, "branches on spec.scale and spec.endpoint", "ranges are materialised for a variable that is not a RangeSpec (or scale / endpoint no longer select the materialisation)", ms.lineno)

    # ------------------------------------------------------------------ D6 (the spec classes hold what they were given)
    def is_spec6(e: ast.AST) -> bool:
        return (isinstance(e, ast.Name) and e.id == spec) or kmatch(f"{vars_p}[{var}]", e) is not None

    kind_exprs: List[ast.AST] = []
    for c in ast.walk(F6.fn):
        m = (kmatch("isinstance(_S_, _K_)", c) or kmatch("type(_S_) is _K_", c) or kmatch("type(_S_) == _K_", c)) if isinstance(c, (ast.Call, ast.Compare)) else None
        if m and is_spec6(m["_S_"]):
            kind_exprs += list(m["_K_"].elts) if isinstance(m["_K_"], ast.Tuple) else [m["_K_"]]
    _spec_fields(repo, R, [(SWEEP, MAT, F6), (PREP, "_convert_var_specs", FY)], is_spec6, kind_exprs)

    # ------------------------------------------------------------------ D6 (element-preserving copy)
    r_seq = R.rule("C03-D6-sequence-as-given", "for every variable kind the list that is swept and published is a plain list(<source>) copy - of the np.linspace / np.logspace result, of spec.values, of params[spec.key] - so item i keeps its value, type and position (no array coercion, sort, dedup or mapping), and is not modified in place afterwards", 5)
    nms = _canon_records(clone(nfunc(repo, SWEEP, MAT, copyprop="all")))
    _attach_parents(nms)
    stores = [(n, {"_X_": n.value}) for n in walk_no_nested(nms) if isinstance(n, ast.Assign) and any(match(f"{SQ}[{var}]", t) for t in n.targets)]  # a chained store counts
    kinds: Set[str] = set()

    def _flat(e: ast.AST) -> List[ast.AST]:
        return _flat(e.body) + _flat(e.orelse) if isinstance(e, ast.IfExp) else [e]

    def _assignments(name: str) -> List[Tuple[ast.AST, ast.AST]]:
        out = []
        for n in walk_no_nested(nms):
            if isinstance(n, ast.Assign) and any(isinstance(t, ast.Name) and t.id == name for t in n.targets):
                out.append((n, n.value))
            elif isinstance(n, ast.AnnAssign) and isinstance(n.target, ast.Name) and n.target.id == name and n.value is not None:
                out.append((n, n.value))
        return out

    def _sources(e: ast.AST, depth: int = 0) -> List[ast.AST]:
        """The expressions *e* stands for: a local name is replaced by its definitions (conditional expressions split)."""
        outs: List[ast.AST] = []
        for x in _flat(e):
            ds = _assignments(x.id) if isinstance(x, ast.Name) and depth < 4 else []
            if ds:
                for _s, d in ds:
                    outs.extend(_sources(d, depth + 1))
            else:
                outs.append(x)
        return outs

    def _kind(src: ast.AST) -> Optional[str]:
        if isinstance(src, ast.Call) and call_name(src) in ("np.linspace", "np.logspace", "numpy.linspace", "numpy.logspace"):
            return "range"
        if match(f"{spec}.values", src):
            return "explicit"
        if match(f"{params_p}[{spec}.key]", src):
            return "from_context"
        return None

    if len(stores) != 1:
        raise AnalysisError("_materialize_sequences: the store sequences[var] = <list> was not found exactly once in the normal form")
    X = stores[0][1]["_X_"]
    defs_x = _assignments(X.id) if isinstance(X, ast.Name) else [(stores[0][0], X)]
    for st, d in defs_x:
        for leaf in _flat(d):
            m = match("list(_E_)", leaf)
            srcs = _sources(m["_E_"]) if m else []
            ks = {_kind(s) for s in srcs}
            ok = bool(m) and bool(ks) and None not in ks and len(ks) == 1
            if ok:
                kinds |= ks  # type: ignore[arg-type]
            label = next(iter(ks)) if ok else "?"
            R.check(ok, r_seq, SWEEP, MAT, f"{label}: swept list = list(<source>)", f"`{_u(st)[:120]}`: the swept / published sequence is not a plain list(...) copy of its source (np.linspace/np.logspace result, spec.values or params[spec.key]); items are coerced, reordered or rebuilt before they are swept", getattr(st, "lineno", ms.lineno))
    R.check(kinds >= {"range", "explicit", "from_context"}, r_seq, SWEEP, MAT, "range, explicit and from_context variables each have a list(<source>) definition", f"no element-preserving definition found for variable kind(s) {sorted({'range', 'explicit', 'from_context'} - kinds)}", ms.lineno)
    if isinstance(X, ast.Name):
        muts = mutation_sites(nms, {X.id})
        R.check(not muts, r_seq, SWEEP, MAT, "the swept list is not modified in place after it was copied", f"`{_u(muts[0][0])[:120]}` modifies the swept / published list in place (items reordered, dropped or replaced)" if muts else "", getattr(muts[0][0], "lineno", ms.lineno) if muts else ms.lineno)
