"""C03 - parameter sweeps expand to exactly the documented element sequence.

D1 step enumeration, D2 merge precedence, D3 the three generated variants agree and each has the
documented form, D4 publication of <var>_values, D5 YAML conversion table, D6 materialisation
argument provenance.  Numerical content of ranges is not decided.

Rules are written as structural patterns with metavariables (sa/pat.py): locals are identified by
the role their definition plays, never by name.
"""
from __future__ import annotations

import ast
from typing import Dict, List, Optional, Set, Tuple

from ..cfg import CFG, edges_guaranteeing, reaching_defs, returns_only_through
from ..engine import (
    AnalysisError,
    FuncNode,
    Repo,
    ancestors,
    assigned_value,
    call_attr,
    call_name,
    calls_in,
    dotted_name,
    kwarg,
    mutation_sites,
    norm,
    qualname_of,
    stmt_of,
    walk_no_nested,
)
from ..normal import nfunc
from ..pat import find, find1, match, name_of
from ..report import Report

SWEEP = "semantiva/data_processors/parametric_sweep_factory.py"
NODES = "semantiva/pipeline/nodes/nodes.py"
PREP = "semantiva/pipeline/node_preprocess.py"
CREATE = "ParametricSweepFactory.create"


def _u(e: Optional[ast.AST]) -> str:
    return ast.unparse(e) if e is not None else ""


def _local_map(fn: ast.AST) -> Dict[str, str]:
    """Locals of *fn* (stored names, not parameters) numbered by first store: rename-insensitive comparison."""
    params = {a.arg for f in ast.walk(fn) if isinstance(f, FuncNode + (ast.Lambda,)) for a in f.args.args + f.args.kwonlyargs}
    out: Dict[str, str] = {}
    stores = [n for n in ast.walk(fn) if isinstance(n, ast.Name) and isinstance(n.ctx, ast.Store)]
    stores.sort(key=lambda n: (n.lineno, n.col_offset))
    for n in stores:
        if n.id not in params and n.id not in out:
            out[n.id] = f"v{len(out)}"
    return out


def _unify(node: Optional[ast.AST], fn: ast.AST) -> str:
    """Position-free dump with the receiver (cls/self) unified and the function's locals numbered by
    first occurrence inside this statement (so the comparison is insensitive to local names)."""
    if node is None:
        return ""
    n = ast.parse(ast.unparse(node)).body[0] if isinstance(node, ast.stmt) else ast.parse(ast.unparse(node), mode="eval").body
    locals_ = set(_local_map(fn))
    order: Dict[str, str] = {}

    class T(ast.NodeTransformer):
        def visit_Name(self, x):
            if x.id in ("cls", "self"):
                x.id = "S"
            elif x.id in locals_:
                x.id = order.setdefault(x.id, f"v{len(order)}")
            return x

    T().visit(n)
    return ast.dump(n, include_attributes=False)


def variant_bodies(repo: Repo) -> List[Tuple[str, ast.FunctionDef]]:
    create = repo.func(SWEEP, CREATE)
    out = []
    for n in ast.walk(create):
        if isinstance(n, FuncNode) and n.name in ("_get_data", "_process_logic") and any(call_attr(c) == "_iterate_sweep" for c in calls_in(n)):
            out.append((qualname_of(n), n))
    if len(out) != 3:
        raise AnalysisError(f"{len(out)} generated sweep bodies found (3 confirmed by reading)")
    return out


def _defs(fn: ast.AST, e: Optional[ast.AST]) -> List[ast.AST]:
    """The expression itself, or the right-hand sides assigned to it when it is a local name."""
    if isinstance(e, ast.Name):
        v = assigned_value(fn, e.id)
        return v or [e]
    return [e] if e is not None else []


CREATED_ATTR = "_last_created_sequences"


def _edges(test: ast.AST, atom) -> Set[str]:
    """edges_guaranteeing plus the dual cases: `a or b` true guarantees the atom when every disjunct's truth
    does; `a and b` false guarantees it when every conjunct's falsity does."""
    out = set(edges_guaranteeing(test, atom))
    if isinstance(test, ast.UnaryOp) and isinstance(test.op, ast.Not):
        out |= {"F" if e == "T" else "T" for e in _edges(test.operand, atom)}
    elif isinstance(test, ast.BoolOp):
        subs = [_edges(v, atom) for v in test.values]
        if isinstance(test.op, ast.Or):
            if all("T" in x for x in subs):
                out.add("T")
            if any("F" in x for x in subs):
                out.add("F")
        else:
            if all("F" in x for x in subs):
                out.add("F")
            if any("T" in x for x in subs):
                out.add("T")
    return out


def _reads_created(e: ast.AST) -> bool:
    """*e* reads the sweep processor's record of materialised sequences (attribute or getattr spelling)."""
    return any((isinstance(x, ast.Attribute) and x.attr == CREATED_ATTR) or (isinstance(x, ast.Constant) and x.value == CREATED_ATTR) for x in ast.walk(e))


def _node_publication(repo: Repo, R: Report, rule: str, qn: str) -> int:
    """Publication loops `for k, v in D.items(): update_context(ctx, k, v)` of node method *qn* whose D is
    the processor's `_last_created_sequences`; decided on the normal form (helpers inlined, locals
    substituted) with the CFG:
      (a) inside the loop, an iteration that does not write (k, v) went through a branch that guarantees
          `k == self.context_key` (the node's own result key) - nothing else may be skipped;
      (b) from `self.processor.process(...)` every path to the normal return enters the loop unless a branch
          guarantees that nothing was materialised (D is None / not a dict / empty);
      (c) the context written is the one returned in the Payload.
    Returns the number of publication loops found."""
    raw = repo.func(NODES, qn)
    nf = nfunc(repo, NODES, qn, copyprop="all")
    g = CFG(nf, may_raise=lambda p: set())
    exits = {g.ret_exit, g.exc_exit, g.base_exit}
    found = 0
    for lp in [n for n in walk_no_nested(nf) if isinstance(n, ast.For)]:
        m = match("_D_.items()", lp.iter)
        t = lp.target
        if not m or not (isinstance(t, ast.Tuple) and len(t.elts) == 2 and all(isinstance(e, ast.Name) for e in t.elts)):
            continue
        D = m["_D_"]
        if not any(_reads_created(x) for x in _defs(nf, D)):
            continue
        found += 1
        k, v = t.elts[0].id, t.elts[1].id
        dtxt = _u(D)
        writes = [c for c, _e in find(lp, f"_O_.update_context(_CTX_, {k}, {v})")]
        line = getattr(lp, "lineno", raw.lineno)
        R.check(bool(writes), rule, NODES, qn, "update_context(context, key, value) for the pairs of processor._last_created_sequences", f"the loop over `{dtxt}.items()` never writes the (key, sequence) pair into the context as it is", line)
        if not writes:
            continue
        w_nodes = {nid for c in writes for nid in g.nodes_for(stmt_of(c))}
        lp_nodes = set(g.nodes_for(lp))

        def own_key(e: ast.AST) -> Optional[bool]:
            if match(f"{k} == self.context_key", e) or match(f"self.context_key == {k}", e):
                return True
            if match(f"{k} != self.context_key", e) or match(f"self.context_key != {k}", e):
                return False
            return None

        skip_ok = {(n.id, lab) for n in g.nodes if n.kind in ("if", "while") and n.part is not None for lab in _edges(n.part, own_key)}
        starts = [tgt for nid in lp_nodes for tgt, lab in g.succ[nid] if lab == "T" and tgt not in w_nodes]
        seen = g.reach(starts, blocked=w_nodes, blocked_edges=skip_ok) if starts else {}
        bad = [x for x in sorted(lp_nodes) + sorted(exits) if x in seen]
        path = g.path_to(seen, bad[0]) if bad else []
        R.check(not bad, rule, NODES, qn, "every (key, sequence) pair is written; only the node's own context key is skipped", f"a materialised <var>_values sequence is skipped for a reason other than being the node's own context key (a stale or missing value stays in the context)", line, path)

        # (b) the loop is entered after process() unless nothing was materialised
        pcalls = [c for c in calls_in(nf) if match("self.processor.process", c.func)]
        if not pcalls:
            raise AnalysisError(f"{qn}: call of self.processor.process not found")

        def nothing(e: ast.AST) -> Optional[bool]:
            if match("isinstance(_X_, dict)", e) and _u(e.args[0]) == dtxt:
                return False
            if (match("_X_ is None", e) or match("_X_ == None", e)) and _u(e.left) == dtxt:
                return True
            if (match("_X_ is not None", e) or match("_X_ != None", e)) and _u(e.left) == dtxt:
                return False
            if _u(e) == dtxt:
                return False
            if match(f"hasattr(self.processor, '{CREATED_ATTR}')", e):
                return False
            return None

        none_ok = {(n.id, lab) for n in g.nodes if n.kind in ("if", "while") and n.part is not None for lab in _edges(n.part, nothing)}
        p_nodes = [nid for c in pcalls for nid in g.nodes_for(stmt_of(c))]
        seen = g.reach(p_nodes, blocked=lp_nodes, blocked_edges=none_ok)
        path = g.path_to(seen, g.ret_exit) if g.ret_exit in seen else []
        R.check(g.ret_exit not in seen, rule, NODES, qn, "after process() the publication loop is entered unless nothing was materialised", "the node can return without publishing the materialised sequences", line, path)

        # (c) the context written is the one handed on
        rets = find(nf, "return Payload(_A_, _C_)")
        ctxs = {_u(c.args[0]) for c in writes}
        ok = bool(rets) and all({_u(e["_C_"])} == ctxs for _r, e in rets)
        R.check(ok, rule, NODES, qn, "the sequences are written into the context returned in the Payload", "the materialised sequences are written into a context other than the one passed downstream", line)
    return found


def run(repo: Repo, R: Report) -> None:
    R.assume(
        "itertools.product varies the rightmost sequence fastest; numpy.linspace/logspace return the documented values for their arguments",
        "the wrapped processor applied to the merged parameters is what 'element i' means",
    )
    R.undecided("numerical content of range variables and of expression values; the typed collection's own behaviour")

    # ------------------------------------------------------------------ D1
    r_it = R.rule("C03-D1-step-enumeration", "combinatorial: product over the sequences taken in plain sorted variable-name order, each step dict(zip(names, combo)); by_position: unequal lengths rejected unless broadcast, broadcast cycles seq[i % len(seq)] up to the longest, steps are positions 0..n-1", 7)
    it = repo.func(SWEEP, "_iterate_sweep")
    seqs = it.args.args[0].arg
    bc = next((a.arg for a in it.args.kwonlyargs if a.arg == "broadcast"), "broadcast")
    prod = [c for c in calls_in(it) if call_name(c) in ("itertools.product", "product")]
    ok_sorted = ok_align = ok_prod = ok_zip = False
    names_src = None
    if len(prod) == 1 and len(prod[0].args) == 1 and isinstance(prod[0].args[0], ast.Starred):
        ok_prod = True
        for sv in _defs(it, prod[0].args[0].value):
            m = match(f"[{seqs}[_v_] for _v_ in _N_]", sv)
            if m:
                ok_align = True
                names_src = m["_N_"]
        for nv in _defs(it, names_src):
            if match(f"sorted({seqs}.keys())", nv) or match(f"sorted({seqs})", nv):
                ok_sorted = True
        loop = next((a for a in ancestors(prod[0]) if isinstance(a, ast.For)), None)
        if loop is not None and names_src is not None:
            for y in [n for n in ast.walk(loop) if isinstance(n, ast.Yield)]:
                m = match("dict(zip(_N_, _C_))", y.value, {"_N_": names_src})
                if m and _u(m["_C_"]) == _u(loop.target):
                    ok_zip = True
    R.check(ok_sorted, r_it, SWEEP, "_iterate_sweep", "names = sorted(sequences.keys())", "variable names are not taken in plain sorted order (custom key / mapping order): the element sequence is permuted", it.lineno)
    R.check(ok_align, r_it, SWEEP, "_iterate_sweep", "seqs = [sequences[v] for v in names]", "sequences are not aligned with the sorted names", it.lineno)
    R.check(ok_prod, r_it, SWEEP, "_iterate_sweep", "itertools.product(*seqs)", "combinatorial steps are not the Cartesian product of the sorted sequences", it.lineno)
    R.check(ok_zip, r_it, SWEEP, "_iterate_sweep", "yield dict(zip(names, combo))", "a combinatorial step does not pair sorted names with the product tuple", it.lineno)
    lens = find1(it, f"_L_ = [len(_s_) for _s_ in {seqs}.values()]")
    if lens is None:
        raise AnalysisError("_iterate_sweep: list of sequence lengths not found")
    L = name_of(lens[1], "_L_")
    g = CFG(it, may_raise=lambda p: set())

    def eq_len(e: ast.AST) -> Optional[bool]:
        if match(f"len(set({L})) != 1", e) or match(f"len(set({L})) > 1", e):
            return False
        if match(f"len(set({L})) == 1", e):
            return True
        if dotted_name(e) == bc:
            return True  # the broadcast path is the documented alternative
        return None

    pos_yields = [n.id for n in g.nodes if n.ast is not None and n.kind == "stmt" and any(isinstance(x, ast.Yield) and isinstance(x.value, ast.DictComp) for x in ast.walk(n.ast))]
    holds, path, guards = returns_only_through(g, eq_len, targets=pos_yields)
    R.check(holds and guards > 0 and bool(pos_yields), r_it, SWEEP, "_iterate_sweep", "by_position yields only after broadcast or the equal-length test", "positions are aligned although lengths differ and broadcast is off", it.lineno, path)
    mism = [n for n in ast.walk(it) if isinstance(n, ast.If) and eq_len(n.test) is False]
    ok = bool(mism) and isinstance(mism[0].body[-1], ast.Raise) and "ValueError" in _u(mism[0].body[-1])
    R.check(ok, r_it, SWEEP, "_iterate_sweep", "unequal lengths raise ValueError", "unequal lengths are not rejected with ValueError", it.lineno)
    mx = find1(it, f"_M_ = max({L})")
    ok = False
    if mx is not None:
        M = name_of(mx[1], "_M_")
        cyc = find(it, f"[_q_[_i_ % len(_q_)] for _i_ in range({M})]")
        cnt = find(it, f"_K_ = {M}")
        ok = bool(cyc) and bool(cnt)
    R.check(ok, r_it, SWEEP, "_iterate_sweep", "broadcast: seq[i % len(seq)] for i in range(max(len))", "broadcast does not cycle shorter sequences up to the longest one", it.lineno)
    ok = False
    for lp in [n for n in ast.walk(it) if isinstance(n, ast.For)]:
        m = match("range(_K_)", lp.iter)
        if m and isinstance(lp.target, ast.Name):
            for y in [x for x in ast.walk(lp) if isinstance(x, ast.Yield)]:
                if match(f"{{_v_: _Q_[_v_][{lp.target.id}] for _v_ in _Q_}}", y.value):
                    kdefs = _defs(it, m["_K_"])
                    ok = any(match(f"{L}[0]", d) for d in kdefs) or any(isinstance(d, ast.Name) for d in kdefs)
    R.check(ok, r_it, SWEEP, "_iterate_sweep", "for i in range(step_count): yield {var: sequences[var][i]}", "by_position steps are not the aligned positions in order", it.lineno)

    # ------------------------------------------------------------------ D2
    r_m = R.rule("C03-D2-merge-precedence", "call parameters start from the provided (node/default) values and are then overwritten by the expression outputs", 1)
    mg = repo.func(SWEEP, "_merge_call_parameters")
    kw = [a.arg for a in mg.args.kwonlyargs] or [a.arg for a in mg.args.args]
    base_p = next((a for a in kw if "base" in a), kw[0] if kw else "base_kwargs")
    expr_p = next((a for a in kw if "expr" in a), kw[-1] if kw else "expression_outputs")
    ok = False
    m1 = find1(mg, f"_M_ = dict({base_p})") or find1(mg, f"_M_ = {base_p}.copy()") or find1(mg, f"_M_ = {{**{base_p}}}")
    if m1 is not None:
        M = name_of(m1[1], "_M_")
        up = find1(mg, f"{M}.update({expr_p})")
        rets = [n for n in walk_no_nested(mg) if isinstance(n, ast.Return)]
        ok = up is not None and up[0].lineno > m1[0].lineno and len(rets) == 1 and dotted_name(rets[0].value) == M and not find(mg, f"{M}.update({base_p})")
    else:
        rets = [n for n in walk_no_nested(mg) if isinstance(n, ast.Return)]
        ok = len(rets) == 1 and (match(f"{{**{base_p}, **{expr_p}}}", rets[0].value) is not None or match(f"{base_p} | {expr_p}", rets[0].value) is not None)
    R.check(ok, r_m, SWEEP, "_merge_call_parameters", "merged = dict(base_kwargs); merged.update(expression_outputs)", "computed-by-expression values no longer take precedence over provided ones", mg.lineno)

    # ------------------------------------------------------------------ D3
    r_v = R.rule("C03-D3-variants", "the three generated bodies (source, operation, probe) materialise, drop from-context keys, select provided kwargs by presence, iterate with the class' mode/broadcast, evaluate every expression on the step, merge, filter to the element's parameter names and call the element once per step in order; they agree with each other on these steps", 24)
    variants = variant_bodies(repo)
    forms: Dict[str, Dict[str, str]] = {}
    for qn, f in variants:
        d: Dict[str, str] = {}
        S = "cls" if f.name == "_get_data" else "self"
        kwname = f.args.kwarg.arg if f.args.kwarg else "kwargs"
        loop = next((n for n in walk_no_nested(f) if isinstance(n, ast.For) and isinstance(n.iter, ast.Call) and call_attr(n.iter) == "_iterate_sweep"), None)
        if loop is None:
            raise AnalysisError(f"{qn}: sweep loop not found")
        mat = find1(f, f"(_SEQ_, _CR_) = _materialize_sequences(vars={S}._vars, params={kwname})")
        R.check(mat is not None, r_v, SWEEP, qn, "_materialize_sequences(vars=S._vars, params=kwargs)", "sequences are not materialised from the class' variables and the call's parameters", f.lineno)
        SEQ = name_of(mat[1], "_SEQ_") if mat else "__missing__"
        d["materialise"] = _unify(mat[0] if mat else None, f)
        pops = [lp for lp, _e in find(f, f"for _k_ in {S}._from_context_keys:\n    {kwname}.pop(_k_, None)")]
        R.check(len(pops) == 1 and mat is not None and pops[0].lineno > mat[0].lineno, r_v, SWEEP, qn, "from-context keys are removed from kwargs after materialisation", "from-context sequences leak into the element's parameters (or are removed before being read)", f.lineno)
        d["pop"] = _unify(pops[0] if pops else None, f)
        bk = find1(f, f"_B_ = {{_n_: {kwname}[_n_] for _n_ in _BF_ if _n_ in {kwname}}}")
        bk_any = find1(f, f"_B_ = {{_n_: {kwname}[_n_] for _n_ in _BF_ if _ANY_}}")
        bf = name_of((bk or bk_any)[1], "_BF_") if (bk or bk_any) else None
        create_fn = repo.func(SWEEP, CREATE)
        bf_defs = [v for v in assigned_value(create_fn, bf)] if bf else []
        if bk is not None and not (len(bf_defs) == 1 and isinstance(bf_defs[0], ast.BinOp) and isinstance(bf_defs[0].op, ast.BitOr)):
            bk = None  # the filter set is not the factory's (required | optional) external names
        R.check(bk is not None, r_v, SWEEP, qn, "base_kwargs = {n: kwargs[n] for n in base_kwargs_filter if n in kwargs}", "provided parameters are selected by value instead of by presence (an explicit None / falsy node parameter is dropped and the element's default is used)" if bk_any else "provided parameters are not selected from the call's kwargs by presence", (bk_any or bk or (f, {}))[0].lineno)
        B = name_of((bk or bk_any)[1], "_B_") if (bk or bk_any) else "__missing__"
        d["base_kwargs"] = _unify((bk or bk_any)[0] if (bk or bk_any) else None, f)
        ok = match(f"_iterate_sweep({SEQ}, mode={S}._mode, broadcast={S}._broadcast)", loop.iter) is not None
        R.check(ok, r_v, SWEEP, qn, "_iterate_sweep(sequences, mode=S._mode, broadcast=S._broadcast)", "a variant iterates with a different mode / broadcast than the sweep declares", loop.lineno)
        d["iterate"] = _unify(loop.iter, f)
        step = loop.target.id if isinstance(loop.target, ast.Name) else "__missing__"
        eo = find1(loop, f"_E_ = {{_p_: _fn_(**{step}) for (_p_, _fn_) in {S}._compiled_exprs.items()}}")
        R.check(eo is not None, r_v, SWEEP, qn, "expr_outputs = {p: fn(**step) for p, fn in S._compiled_exprs.items()}", "expressions are not all evaluated on this step's variable values", loop.lineno)
        E = name_of(eo[1], "_E_") if eo else "__missing__"
        d["exprs"] = _unify(eo[0] if eo else None, f)
        mc = find1(loop, f"_C_ = _merge_call_parameters(base_kwargs={B}, expression_outputs={E})")
        R.check(mc is not None, r_v, SWEEP, qn, "call_params = _merge_call_parameters(base_kwargs=base_kwargs, expression_outputs=expr_outputs)", "a variant merges provided and computed parameters differently", loop.lineno)
        C = name_of(mc[1], "_C_") if mc else "__missing__"
        d["merge"] = _unify(mc[0] if mc else None, f)
        flt = find1(loop, f"_F_ = {{_k_: _v_ for (_k_, _v_) in {C}.items() if _k_ in {S}._allowed_names}}")
        ok = flt is not None and mc is not None and flt[0].lineno > mc[0].lineno
        R.check(ok, r_v, SWEEP, qn, "call_params filtered to S._allowed_names", "parameters are not filtered to the element's signature (or filtered by something else)", loop.lineno)
        Fv = name_of(flt[1], "_F_") if flt else "__missing__"
        d["filter"] = _unify(flt[0] if flt else None, f)
        # element call once per step, appended in order
        apps = [c for c in calls_in(loop) if call_attr(c) == "append"]
        ok = len(apps) == 1 and not any(isinstance(x, (ast.If, ast.Continue, ast.Break)) for x in ast.walk(loop))
        el = apps[0].args[0] if apps else None
        el_ok = False
        if isinstance(el, ast.Call):
            if f.name == "_get_data":
                el_ok = match(f"cls._element.get_data(**{Fv})", el) is not None
            else:
                data_p = f.args.args[1].arg
                m = match(f"_I_.process({data_p}, **{Fv})", el)
                if m:
                    inst = name_of(m, "_I_")
                    idefs = [n for n in loop.body if isinstance(n, ast.Assign) and dotted_name(n.targets[0]) == inst]
                    el_ok = bool(idefs) and isinstance(idefs[0].value, ast.Call) and dotted_name(idefs[0].value.func) == "self._element"
        R.check(ok and el_ok, r_v, SWEEP, qn, "results.append(<element>(**call_params)) once per step", "the wrapped processor is not applied exactly once per step, in step order, to the input data with the merged parameters", loop.lineno)
        rets = [n for n in walk_no_nested(f) if isinstance(n, ast.Return)]
        lst = dotted_name(apps[0].func.value) if apps else "__missing__"
        is_probe = "Probe" in qn
        if is_probe:
            ok = len(rets) == 1 and dotted_name(rets[0].value) == lst
            what = "a probe sweep does not return the plain list of results in order"
        else:
            ok = len(rets) == 1 and match(f"{S}._collection_output.from_list({lst})", rets[0].value) is not None
            what = "the typed collection is not built from the results in step order"
        R.check(ok, r_v, SWEEP, qn, "return " + ("results" if is_probe else "S._collection_output.from_list(results)"), what, f.lineno)
        forms[qn] = d
    names = list(forms)
    for key in ("materialise", "pop", "base_kwargs", "iterate", "exprs", "merge", "filter"):
        vals = {forms[n][key] for n in names}
        R.check(len(vals) == 1, r_v, SWEEP, CREATE, f"variants agree on step `{key}`", f"the generated source / operation / probe bodies differ in `{key}`", 0)

    # ------------------------------------------------------------------ D4
    r_p = R.rule("C03-D4-publication", "every variant declares <var>_values for each variable, materialisation stores exactly those keys, each variant hands them to the run context (or leaves them for the node), and the probe node publishes and declares them", 9)
    create = repo.func(SWEEP, CREATE)
    gck = [n for n in ast.walk(create) if isinstance(n, FuncNode) and n.name == "get_created_keys"]
    for f in gck:
        ok = bool(find(f, "[f'{_v_}_values' for _v_ in cls._vars]"))
        R.check(ok, r_p, SWEEP, qualname_of(f), "declares [f'{var}_values' for var in cls._vars]", "declared created keys are not <var>_values for every sweep variable", f.lineno)
    if len(gck) != 3:
        raise AnalysisError(f"{len(gck)} get_created_keys templates in the sweep factory (3 confirmed by reading)")
    ms = repo.func(SWEEP, "_materialize_sequences")
    rets = [n for n in walk_no_nested(ms) if isinstance(n, ast.Return) and isinstance(n.value, ast.Tuple) and len(n.value.elts) == 2]
    if not rets:
        raise AnalysisError("_materialize_sequences: (sequences, created) return not found")
    SQ, CRV = dotted_name(rets[0].value.elts[0]), dotted_name(rets[0].value.elts[1])
    vars_p = ms.args.kwonlyargs[0].arg if ms.args.kwonlyargs else "vars"
    vloop = next((n for n in walk_no_nested(ms) if isinstance(n, ast.For) and match(f"{vars_p}.items()", n.iter) is not None), None)
    var = vloop.target.elts[0].id if vloop is not None and isinstance(vloop.target, ast.Tuple) else "var"
    spec = vloop.target.elts[1].id if vloop is not None and isinstance(vloop.target, ast.Tuple) else "spec"
    st_c = find(ms, f"{CRV}[f'{{{var}}}_values'] = _X_", nested=False)
    st_s = find(ms, f"{SQ}[{var}] = _X_")
    ok = len(st_c) == 1 and len(st_s) == 1 and _u(st_c[0][1]["_X_"]) == _u(st_s[0][1]["_X_"]) and not [a for a in ancestors(st_c[0][0]) if isinstance(a, ast.If)]
    R.check(ok, r_p, SWEEP, "_materialize_sequences", "created[f'{var}_values'] = sequences[var] = seq_list for every variable", "the published sequence is not the one that is swept (or is missing for some variable kind)", ms.lineno)
    for qn, f in variants:
        loop = next(n for n in walk_no_nested(f) if isinstance(n, ast.For) and isinstance(n.iter, ast.Call) and call_attr(n.iter) == "_iterate_sweep")
        mat = find1(f, "(_SEQ_, _CR_) = _materialize_sequences(vars=_ANY_, params=_ANY_)")
        CR = name_of(mat[1], "_CR_") if mat else "created"
        pubs = find(f, f"_publish_created_context({CR}, _CTX_)")
        ok = len(pubs) == 1 and pubs[0][0].lineno > loop.lineno and not [a for a in ancestors(pubs[0][0]) if isinstance(a, (ast.If, ast.Try)) and any(a2 is f for a2 in ancestors(a))]
        if f.name == "_process_logic":
            ok = ok and bool(find(f, f"self._last_created_sequences = {CR}"))
        R.check(ok, r_p, SWEEP, qn, "_publish_created_context(created, <context>) after the loop", "materialised sequences are not handed to the run context by this variant", f.lineno)
    pc = repo.func(SWEEP, "_publish_created_context")
    cp, xp = pc.args.args[0].arg, pc.args.args[1].arg
    w = find(pc, f"for (_k_, _v_) in {cp}.items():\n    {xp}.set_value(_k_, _v_)")
    ok = bool(w) and not any(isinstance(n, ast.If) for n in ast.walk(w[0][0]))
    R.check(ok, r_p, SWEEP, "_publish_created_context", "every created key is written with set_value", "some <var>_values keys are not written", pc.lineno)
    r_np = R.rule("C03-D4-node-publication", "a node that publishes the processor's materialised sequences itself writes every (key, sequence) pair of processor._last_created_sequences into the payload's context after process(): the only pair it may skip is the node's own context key, and the only reason not to enter the loop is that nothing was materialised", 4)
    pqn = "_ProbeContextInjectorNode._process_single_item_with_context"
    pn = repo.func(NODES, pqn)
    loops = _node_publication(repo, R, r_np, pqn)
    R.check(loops > 0, r_p, NODES, pqn, "publishes processor._last_created_sequences", "a swept probe declares <var>_values but the probe node never writes them into the context", pn.lineno)
    _node_publication(repo, R, r_np, "_DataOperationContextInjectorProbeNode._process_single_item_with_context")
    pk = repo.func(NODES, "_ProbeContextInjectorNode.get_created_keys")
    ok = "cls.processor" in _u(pk) and "get_created_keys" in _u(pk) and "cls.context_key" in _u(pk)
    R.check(ok, r_p, NODES, "_ProbeContextInjectorNode.get_created_keys", "context_key + processor's created keys", "the probe node does not declare the keys its swept processor creates", pk.lineno)
    for qn in ("_DataNode._process_single_item_with_context", "_DataOperationContextInjectorProbeNode._process_single_item_with_context"):
        f = repo.func(NODES, qn)
        ok = bool(find(f, "setattr(self.processor, 'observer_context', _C_)")) or bool(find(f, "self.processor.observer_context = _C_"))
        R.check(ok, r_p, NODES, qn, "processor.observer_context = context before process()", "the swept processor has no context to publish <var>_values into", f.lineno)

    # ------------------------------------------------------------------ D5
    r_y = R.rule("C03-D5-yaml-conversion", "YAML variable specs map to the documented spec classes and defaults: [a, b] of two numbers -> range with 10 steps; other lists and {values} -> sequence as given; {lo, hi, steps[, scale=linear][, endpoint=True]} -> range; {from_context: key}; the [a, b] shorthand is applied to the bare-list spelling only", 7)
    cv = repo.func(PREP, "_convert_var_specs")
    vl = next((n for n in walk_no_nested(cv) if isinstance(n, ast.For) and isinstance(n.target, ast.Tuple)), None)
    sp = vl.target.elts[1].id if vl is not None else "spec"
    rs = [c for c in ast.walk(cv) if isinstance(c, ast.Call) and call_attr(c) == "RangeSpec"]
    two = [c for c in rs if match(f"RangeSpec(lo=float({sp}[0]), hi=float({sp}[1]), steps=10)", c)]
    R.check(len(two) == 1, r_y, PREP, "_convert_var_specs", "[a, b] -> RangeSpec(lo=a, hi=b, steps=10)", "the two-number shorthand is not a 10-step linear range from a to b", cv.lineno)
    full = [c for c in rs if match(f"RangeSpec(lo=float({sp}['lo']), hi=float({sp}['hi']), steps=int({sp}['steps']), scale={sp}.get('scale', 'linear'), endpoint={sp}.get('endpoint', True))", c)]
    R.check(len(full) == 1 and len(rs) == 2, r_y, PREP, "_convert_var_specs", "{lo, hi, steps, scale='linear', endpoint=True} -> RangeSpec field by field", "range fields are swapped or documented defaults changed", cv.lineno)
    # the [a, b] shorthand is a property of the *bare list* spelling: where it is applied, the value tested is the
    # variable's own YAML value (the loop variable), not something unwrapped from a mapping such as {values: [a, b]}
    gcv = CFG(cv, may_raise=lambda p: set())
    for c in two:
        use = gcv.nodes_for(stmt_of(c))
        rd = [d for u in use for d in reaching_defs(gcv, sp, u)]
        bad_rd = [d for d in rd if d.kind != "for"]
        R.check(bool(rd) and not bad_rd, r_y, PREP, "_convert_var_specs", "the two-number shorthand applies to the variable's own (bare list) value only", f"`{bad_rd[0].text() if bad_rd else sp}` re-binds the spec before the [a, b] shorthand is applied: an explicit sequence written as a mapping (values: [a, b]) is expanded to a 10-step range instead of being swept as given", bad_rd[0].line if bad_rd else cv.lineno)
    ss = [c for c in ast.walk(cv) if isinstance(c, ast.Call) and call_attr(c) == "SequenceSpec"]
    ok = len(ss) == 2 and {_u(c.args[0]) for c in ss if c.args} == {sp, f"{sp}['values']"}
    R.check(ok, r_y, PREP, "_convert_var_specs", "lists / {values} -> SequenceSpec(values as given)", "explicit sequences are transformed (sorted, deduplicated, ...)", cv.lineno)
    fc = [c for c in ast.walk(cv) if isinstance(c, ast.Call) and call_attr(c) == "FromContext"]
    ok = len(fc) == 1 and bool(fc[0].args) and any(f"{sp}['from_context']" in _u(v) for v in _defs(cv, fc[0].args[0]))
    R.check(ok, r_y, PREP, "_convert_var_specs", "{from_context: key} -> FromContext(key)", "from_context variables do not read the declared key", cv.lineno)
    pnc = repo.func(PREP, "preprocess_node_config")
    cc = next((c for c in calls_in(pnc) if call_name(c) == "ParametricSweepFactory.create"), None)

    def from_call(e: Optional[ast.AST], needle: str) -> bool:
        if e is None:
            return False
        if needle in _u(e):
            return True
        return any(needle in _u(v) for x in ast.walk(e) if isinstance(x, ast.Name) for v in assigned_value(pnc, x.id))

    ok = cc is not None
    if ok:
        ok = (from_call(kwarg(cc, "vars"), "_convert_var_specs(") and from_call(kwarg(cc, "parametric_expressions"), ".get('parameters'")
              and from_call(kwarg(cc, "broadcast"), ".get('broadcast', False)") and from_call(kwarg(cc, "mode"), ".get('mode', 'combinatorial')")
              and kwarg(cc, "collection_output") is not None and kwarg(cc, "element") is not None and kwarg(cc, "element_kind") is not None)
    R.check(ok, r_y, PREP, "preprocess_node_config", "create(element, kind, collection, vars, expressions, mode='combinatorial', broadcast=False) from the block's fields", "a field of the derive.parameter_sweep block is not passed on to the factory as declared (or a documented default changed)", pnc.lineno)
    cvc = next((c for c in calls_in(pnc) if call_attr(c) == "_convert_var_specs"), None)
    ok = cvc is not None and bool(cvc.args) and from_call(cvc.args[0], ".get('variables')")
    R.check(ok, r_y, PREP, "preprocess_node_config", "variables converted from the block's `variables` mapping", "sweep variables are not taken from derive.parameter_sweep.variables", pnc.lineno)

    # ------------------------------------------------------------------ D6
    r_mat = R.rule("C03-D6-materialisation-arguments", "linspace/logspace receive lo, hi, steps, endpoint in their roles; explicit sequences are taken as given; from_context reads params[key] behind the missing / non-sequence / empty guards", 5)
    lin = [c for c in calls_in(ms) if call_name(c) == "np.linspace"]
    ok = len(lin) == 1 and match(f"np.linspace({spec}.lo, {spec}.hi, {spec}.steps, endpoint={spec}.endpoint)", lin[0]) is not None
    R.check(ok, r_mat, SWEEP, "_materialize_sequences", "np.linspace(spec.lo, spec.hi, spec.steps, endpoint=spec.endpoint)", "a linear range is not built from (lo, hi, steps, endpoint) in their roles", ms.lineno)
    logs = [c for c in calls_in(ms) if call_name(c) == "np.logspace"]
    ok = len(logs) == 2 and all(match(f"np.logspace(np.log10({spec}.lo), _H_, {spec}.steps)", c) for c in logs) and any(match(f"np.logspace(np.log10({spec}.lo), np.log10({spec}.hi), {spec}.steps)", c) for c in logs)
    R.check(ok, r_mat, SWEEP, "_materialize_sequences", "np.logspace(log10(lo), log10(hi | adjusted), steps)", "a log range is not built from log10(lo), log10(hi), steps", ms.lineno)
    ok = bool(find(nfunc(repo, SWEEP, "_materialize_sequences"), f"_X_ = list({spec}.values)"))  # normal form: helpers inlined
    R.check(ok, r_mat, SWEEP, "_materialize_sequences", "seq_list = list(spec.values)", "explicit sequences are reordered / deduplicated", ms.lineno)
    params_p = ms.args.kwonlyargs[1].arg if len(ms.args.kwonlyargs) > 1 else "params"
    fcb = next((n for n in ast.walk(ms) if isinstance(n, ast.If) and "FromContext" in _u(n.test)), None)
    ok = fcb is not None
    if ok:
        raises = [n for n in ast.walk(fcb) if isinstance(n, ast.If) and n is not fcb and isinstance(n.body[-1], ast.Raise)]
        tests = " | ".join(_u(r.test) for r in raises)
        rd = find1(fcb, f"_V_ = {params_p}[{spec}.key]")
        ok = f"{spec}.key not in {params_p}" in tests and rd is not None and f"isinstance({name_of(rd[1], '_V_')}, (str, bytes))" in tests and any(isinstance(r.test, ast.UnaryOp) and isinstance(r.test.op, ast.Not) and isinstance(r.test.operand, ast.Name) for r in raises)
    R.check(ok, r_mat, SWEEP, "_materialize_sequences", "from_context: params[spec.key] with missing / non-sequence / empty guards", "a from_context variable is read without its guards (or from another key)", ms.lineno)
    ok = any(isinstance(n, ast.If) and match(f"{spec}.scale == 'linear'", n.test) for n in ast.walk(ms)) and any(isinstance(n, ast.If) and match(f"{spec}.endpoint", n.test) for n in ast.walk(ms))
    R.check(ok, r_mat, SWEEP, "_materialize_sequences", "branches on spec.scale and spec.endpoint", "scale / endpoint no longer select the materialisation", ms.lineno)

    # ------------------------------------------------------------------ D6 (element-preserving copy)
    r_seq = R.rule("C03-D6-sequence-as-given", "for every variable kind the list that is swept and published is a plain list(<source>) copy - of the np.linspace / np.logspace result, of spec.values, of params[spec.key] - so item i keeps its value, type and position (no array coercion, sort, dedup or mapping), and is not modified in place afterwards", 5)
    nms = nfunc(repo, SWEEP, "_materialize_sequences", copyprop="all")
    stores = find(nms, f"{SQ}[{var}] = _X_")
    kinds: Set[str] = set()

    def _flat(e: ast.AST) -> List[ast.AST]:
        return _flat(e.body) + _flat(e.orelse) if isinstance(e, ast.IfExp) else [e]

    def _assignments(name: str) -> List[Tuple[ast.AST, ast.AST]]:
        out = []
        for n in walk_no_nested(nms):
            if isinstance(n, ast.Assign) and any(isinstance(t, ast.Name) and t.id == name for t in n.targets):
                out.append((n, n.value))
            elif isinstance(n, ast.AnnAssign) and isinstance(n.target, ast.Name) and n.target.id == name and n.value is not None:
                out.append((n, n.value))
        return out

    def _sources(e: ast.AST, depth: int = 0) -> List[ast.AST]:
        """The expressions *e* stands for: a local name is replaced by its definitions (conditional expressions split)."""
        outs: List[ast.AST] = []
        for x in _flat(e):
            ds = _assignments(x.id) if isinstance(x, ast.Name) and depth < 4 else []
            if ds:
                for _s, d in ds:
                    outs.extend(_sources(d, depth + 1))
            else:
                outs.append(x)
        return outs

    def _kind(src: ast.AST) -> Optional[str]:
        if isinstance(src, ast.Call) and call_name(src) in ("np.linspace", "np.logspace", "numpy.linspace", "numpy.logspace"):
            return "range"
        if match(f"{spec}.values", src):
            return "explicit"
        if match(f"{params_p}[{spec}.key]", src):
            return "from_context"
        return None

    if len(stores) != 1:
        raise AnalysisError("_materialize_sequences: the store sequences[var] = <list> was not found exactly once in the normal form")
    X = stores[0][1]["_X_"]
    defs_x = _assignments(X.id) if isinstance(X, ast.Name) else [(stores[0][0], X)]
    for st, d in defs_x:
        for leaf in _flat(d):
            m = match("list(_E_)", leaf)
            srcs = _sources(m["_E_"]) if m else []
            ks = {_kind(s) for s in srcs}
            ok = bool(m) and bool(ks) and None not in ks and len(ks) == 1
            if ok:
                kinds |= ks  # type: ignore[arg-type]
            label = next(iter(ks)) if ok else "?"
            R.check(ok, r_seq, SWEEP, "_materialize_sequences", f"{label}: swept list = list(<source>)", f"`{_u(st)[:120]}`: the swept / published sequence is not a plain list(...) copy of its source (np.linspace/np.logspace result, spec.values or params[spec.key]); items are coerced, reordered or rebuilt before they are swept", getattr(st, "lineno", ms.lineno))
    R.check(kinds >= {"range", "explicit", "from_context"}, r_seq, SWEEP, "_materialize_sequences", "range, explicit and from_context variables each have a list(<source>) definition", f"no element-preserving definition found for variable kind(s) {sorted({'range', 'explicit', 'from_context'} - kinds)}", ms.lineno)
    if isinstance(X, ast.Name):
        muts = mutation_sites(nms, {X.id})
        R.check(not muts, r_seq, SWEEP, "_materialize_sequences", "the swept list is not modified in place after it was copied", f"`{_u(muts[0][0])[:120]}` modifies the swept / published list in place (items reordered, dropped or replaced)" if muts else "", getattr(muts[0][0], "lineno", ms.lineno) if muts else ms.lineno)
