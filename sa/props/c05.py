"""C05 - identities discriminate: a change of meaning changes semantic and config ID.

Sensitivity to a field is a reachability question: does the field flow into the hashed bytes?
D1 field-coverage tables of every id, D2 generated processors have no identity in processor_ref,
so the sweep definition must reach the pipeline ids through the preprocessor metadata,
D3 positional discriminator and complete domain signatures.
D1b the converter of the hashed parameter map keeps every value (no narrowing / folding / filtering),
D2 also: one metadata entry per declared variable / expression, D5 no id is taken from a process-lifetime memo.

Every rule is decided on the normal form of the anchored function (private helpers inlined, module
constants substituted, single-assignment locals propagated, accumulate loops as comprehensions) and
speaks about *roles*: the mapping that reaches `json.dumps` on the way to `uuid5`, the value stored
under a key of that mapping, the expression a value is derived from (backward flow through locals,
tuple unpacking, container stores), never about the spelling of a local or the position of a line.
"""
from __future__ import annotations

import ast
from typing import Dict, Iterable, List, Optional, Set, Tuple

from ..cfg import CFG, edges_guaranteeing, reaching_defs
from ..engine import (
    AnalysisError,
    FuncNode,
    Module,
    Repo,
    ancestors,
    assigned_value,
    call_attr,
    call_name,
    calls_in,
    dict_items_built,
    dotted_name,
    kwarg,
    norm,
    parent,
    qualname_of,
    returned_values,
    slice_text,
    stmt_of,
    walk_no_nested,
)
from ..pat import find, find1, match, name_of
from ..normal import nfunc
from ..report import Report

GRAPH = "semantiva/pipeline/graph_builder.py"
SEM = "semantiva/metadata/semantic_id.py"
SWEEP = "semantiva/data_processors/parametric_sweep_factory.py"
BUILDER = "semantiva/inspection/builder.py"
ORCH = "semantiva/execution/orchestrator/orchestrator.py"
CANON_KEYS = {"role", "processor_ref", "params", "ports", "declaration_index", "declaration_subindex"}
SWEEP_META_KEYS = {"element_ref", "param_expressions", "variables", "mode", "broadcast", "collection", "dependencies"}
UI_ONLY_ALLOWED = {"preprocessor_view"}
CANON_DROP_ALLOWED = {"expr"}

# calls that return (a copy / reordering of) their first argument with every element kept
WHOLE_FUNCS = {"dict", "list", "tuple", "sorted", "deepcopy", "OrderedDict", "cast", "str", "repr"}
WHOLE_METHODS = {"copy", "items", "encode"}
GROW_METHODS = {"append", "add", "extend", "update", "insert", "setdefault"}
HASH_FUNCS = {"sha256", "sha1", "md5", "sha512", "blake2b", "_sha256_json"}
REORDERING = {"sorted", "set", "reversed", "frozenset"}


def _u(e: Optional[ast.AST]) -> str:
    return ast.unparse(e) if e is not None else ""


def NF(repo: Repo, rel: str, qualname: str, keep: Iterable[str] = ()) -> ast.FunctionDef:
    """The normal form every rule of this module reads."""
    return nfunc(repo, rel, qualname, keep=tuple(keep), copyprop="all", loops=True)


# ---------------------------------------------------------------------------------------------------------
# value flow inside one (normalised) function
# ---------------------------------------------------------------------------------------------------------

def _fn_stmts(fn: ast.AST) -> List[ast.AST]:
    cache = fn.__dict__.get("_c05_nodes")
    if cache is None:
        cache = list(walk_no_nested(fn))
        fn.__dict__["_c05_nodes"] = cache
    return cache


def name_values(fn: ast.AST, name: str) -> List[ast.AST]:
    """Every expression that becomes the value of the local *name* or is put into the object it names:
    assignments (also element-wise through tuple unpacking), augmented assignments, loop / with targets,
    `name[k] = v`, `name.append(v)` / `.update(..)` / `.setdefault(k, v)` ..."""
    out: List[ast.AST] = []

    def bind(target: ast.AST, value: ast.AST) -> None:
        if isinstance(target, ast.Name):
            if target.id == name:
                out.append(value)
        elif isinstance(target, (ast.Tuple, ast.List)):
            if isinstance(value, (ast.Tuple, ast.List)) and len(value.elts) == len(target.elts) and not any(isinstance(e, ast.Starred) for e in list(value.elts) + list(target.elts)):
                for t, v in zip(target.elts, value.elts):
                    bind(t, v)
            elif any(isinstance(x, ast.Name) and x.id == name for x in ast.walk(target)):
                out.append(value)
        elif isinstance(target, ast.Starred):
            bind(target.value, value)
        elif isinstance(target, (ast.Subscript, ast.Attribute)):
            root = target
            while isinstance(root, (ast.Subscript, ast.Attribute)):
                root = root.value
            if isinstance(root, ast.Name) and root.id == name:
                out.append(value)

    for n in _fn_stmts(fn):
        if isinstance(n, ast.Assign):
            for t in n.targets:
                bind(t, n.value)
        elif isinstance(n, ast.AnnAssign) and n.value is not None:
            bind(n.target, n.value)
        elif isinstance(n, ast.AugAssign):
            bind(n.target, n.value)
        elif isinstance(n, ast.NamedExpr):
            bind(n.target, n.value)
        elif isinstance(n, (ast.For, ast.AsyncFor)):
            bind(n.target, n.iter)
        elif isinstance(n, (ast.With, ast.AsyncWith)):
            for it in n.items:
                if it.optional_vars is not None:
                    bind(it.optional_vars, it.context_expr)
        elif isinstance(n, ast.Call) and isinstance(n.func, ast.Attribute) and n.func.attr in GROW_METHODS:
            root = n.func.value
            while isinstance(root, (ast.Subscript, ast.Attribute)):
                root = root.value
            if isinstance(root, ast.Name) and root.id == name:
                out.extend(n.args)
                out.extend(k.value for k in n.keywords)
    return out


def flow(fn: ast.AST, expr: Optional[ast.AST]) -> List[ast.AST]:
    """Backward slice of *expr* inside *fn*: every syntax node of *expr* and of the expressions its locals are
    built from (transitively).  `X in flow(fn, e)` reads "X can contribute to the value of e"."""
    if expr is None:
        return []
    out: List[ast.AST] = []
    seen: Set[str] = set()
    todo: List[ast.AST] = [expr]
    while todo:
        e = todo.pop()
        for x in ast.walk(e):
            out.append(x)
            if isinstance(x, ast.Name) and isinstance(x.ctx, ast.Load) and x.id not in seen:
                seen.add(x.id)
                todo.extend(name_values(fn, x.id))
    return out


def reads_attr(nodes: Iterable[ast.AST], attr: str, of: Optional[str] = None) -> bool:
    """`<of>.attr` or `getattr(<of>, 'attr', ..)` occurs in *nodes*."""
    for x in nodes:
        if isinstance(x, ast.Attribute) and x.attr == attr and (of is None or dotted_name(x.value) == of):
            return True
        if isinstance(x, ast.Call) and call_attr(x) == "getattr" and len(x.args) >= 2 and isinstance(x.args[1], ast.Constant) and x.args[1].value == attr and (of is None or dotted_name(x.args[0]) == of):
            return True
    return False


def reads_key(nodes: Iterable[ast.AST], key: str) -> bool:
    """`<m>['key']` or `<m>.get('key', ..)` occurs in *nodes*."""
    for x in nodes:
        if isinstance(x, ast.Subscript) and isinstance(x.slice, ast.Constant) and x.slice.value == key:
            return True
        if isinstance(x, ast.Call) and call_attr(x) == "get" and x.args and isinstance(x.args[0], ast.Constant) and x.args[0].value == key:
            return True
    return False


def calls_to(nodes: Iterable[ast.AST], *names: str) -> List[ast.Call]:
    return [x for x in nodes if isinstance(x, ast.Call) and call_attr(x) in names]


def _local_callee(repo: Repo, rel: str, fn: ast.AST, call: ast.Call) -> Optional[Tuple[str, ast.AST]]:
    """(qualname, def) of a function of the same module / nested in *fn* that *call* invokes by plain name."""
    nm = call_attr(call)
    if nm is None:
        return None
    for n in ast.walk(fn):
        if isinstance(n, FuncNode) and n is not fn and n.name == nm:
            return qualname_of(n), n
    if isinstance(call.func, ast.Name) or (isinstance(call.func, ast.Attribute) and dotted_name(call.func.value) in ("self", "cls")):
        t = repo.module(rel).defs.get(nm)
        if isinstance(t, FuncNode):
            return nm, t
    return None


def alternatives(fn: ast.AST, e: ast.AST, _seen: Optional[Set[str]] = None) -> List[ast.AST]:
    """The expressions *e* can evaluate to, split at conditional expressions, `or` defaults and the distinct
    assignments of a local."""
    _seen = _seen if _seen is not None else set()
    if isinstance(e, ast.IfExp):
        return alternatives(fn, e.body, _seen) + alternatives(fn, e.orelse, _seen)
    if isinstance(e, ast.Name) and e.id not in _seen:
        vals = [v for v in assigned_value(fn, e.id)]
        if vals:
            _seen.add(e.id)
            out: List[ast.AST] = []
            for v in vals:
                out.extend(alternatives(fn, v, _seen))
            return out
    return [e]


def mapping_items(repo: Repo, rel: str, fn: ast.AST, expr: Optional[ast.AST], depth: int = 0, _seen: Optional[Set[Tuple[int, str]]] = None) -> Dict[str, List[ast.AST]]:
    """Constant keys of the mapping *expr* evaluates to, with every expression written under each key (in source
    order): dict literals with `**` spreads, `dict(m, k=v)`, `a | b`, copies, conditional expressions, locals with
    their `m[k] = v` / `m.update(..)` / `m.setdefault(k, v)` stores, and the returned mappings of functions of the
    same module."""
    out: Dict[str, List[ast.AST]] = {}
    _seen = _seen if _seen is not None else set()
    if expr is None or depth > 4:
        return out

    def add(k, v: ast.AST) -> None:
        out.setdefault(k, []).append(v)

    def merge(e: Optional[ast.AST], d: int = depth) -> None:
        for k, vs in mapping_items(repo, rel, fn, e, d, _seen).items():
            out.setdefault(k, []).extend(vs)

    if isinstance(expr, ast.Dict):
        for k, v in zip(expr.keys, expr.values):
            if k is None:
                merge(v)
            elif isinstance(k, ast.Constant):
                add(k.value, v)
    elif isinstance(expr, ast.IfExp):
        merge(expr.body)
        merge(expr.orelse)
    elif isinstance(expr, ast.BoolOp):
        for v in expr.values:
            merge(v)
    elif isinstance(expr, ast.BinOp) and isinstance(expr.op, ast.BitOr):
        merge(expr.left)
        merge(expr.right)
    elif isinstance(expr, ast.NamedExpr):
        merge(expr.value)
    elif isinstance(expr, ast.Call):
        nm = call_attr(expr)
        if nm in ("dict", "OrderedDict"):
            for a in expr.args:
                merge(a)
            for kw in expr.keywords:
                if kw.arg is None:
                    merge(kw.value)
                else:
                    add(kw.arg, kw.value)
        elif nm == "copy" and isinstance(expr.func, ast.Attribute) and not expr.args:
            merge(expr.func.value)
        elif nm in ("deepcopy", "copy", "cast") and expr.args:
            merge(expr.args[-1])
        else:
            hit = _local_callee(repo, rel, fn, expr)
            if hit is not None:
                callee = NF(repo, rel, hit[0])
                for r in walk_no_nested(callee):
                    if isinstance(r, ast.Return) and r.value is not None:
                        for k, vs in mapping_items(repo, rel, callee, r.value, depth + 1, _seen).items():
                            out.setdefault(k, []).extend(vs)
    elif isinstance(expr, ast.Name):
        key = (id(fn), expr.id)
        if key in _seen:
            return out
        _seen.add(key)
        for v in assigned_value(fn, expr.id):
            merge(v)
        for _st, k, v in key_stores(fn, expr.id):
            add(k, v)
    return out


def key_stores(fn: ast.AST, name: str) -> List[Tuple[ast.AST, object, ast.AST]]:
    """(statement, constant key, value) of every store into the mapping the local *name* holds."""
    out: List[Tuple[ast.AST, object, ast.AST]] = []
    for n in _fn_stmts(fn):
        if isinstance(n, (ast.Assign, ast.AnnAssign)):
            tgts = n.targets if isinstance(n, ast.Assign) else [n.target]
            for t in tgts:
                if isinstance(t, ast.Subscript) and isinstance(t.value, ast.Name) and t.value.id == name and isinstance(t.slice, ast.Constant) and n.value is not None:
                    out.append((n, t.slice.value, n.value))
        elif isinstance(n, ast.Call) and isinstance(n.func, ast.Attribute) and isinstance(n.func.value, ast.Name) and n.func.value.id == name:
            if n.func.attr == "update":
                for a in n.args:
                    if isinstance(a, ast.Dict):
                        for k, v in zip(a.keys, a.values):
                            if isinstance(k, ast.Constant):
                                out.append((stmt_of(n), k.value, v))
                for kw in n.keywords:
                    if kw.arg is not None:
                        out.append((stmt_of(n), kw.arg, kw.value))
            elif n.func.attr == "__setitem__" and len(n.args) == 2 and isinstance(n.args[0], ast.Constant):
                out.append((stmt_of(n), n.args[0].value, n.args[1]))
    out.sort(key=lambda t: (getattr(t[0], "lineno", 0), getattr(t[0], "col_offset", 0)))
    return out


def setdefault_stores(fn: ast.AST, name: str) -> List[Tuple[object, ast.AST]]:
    return [(n.args[0].value, n.args[1]) for n in _fn_stmts(fn) if isinstance(n, ast.Call) and isinstance(n.func, ast.Attribute) and n.func.attr == "setdefault" and isinstance(n.func.value, ast.Name) and n.func.value.id == name and len(n.args) == 2 and isinstance(n.args[0], ast.Constant)]


def first_items(items: Dict[str, List[ast.AST]]) -> Dict[str, ast.AST]:
    return {k: vs[0] for k, vs in items.items() if vs}


def returned_mapping(repo: Repo, rel: str, fn: ast.AST) -> Dict[str, List[ast.AST]]:
    out: Dict[str, List[ast.AST]] = {}
    for r in walk_no_nested(fn):
        if isinstance(r, ast.Return) and r.value is not None:
            for k, vs in mapping_items(repo, rel, fn, r.value).items():
                out.setdefault(k, []).extend(vs)
            if isinstance(r.value, ast.Name):
                for k, v in setdefault_stores(fn, r.value.id):
                    out.setdefault(k, []).append(v)
    return out


def mapping_keys_of(mod: Module, fn: ast.AST, expr: ast.AST, depth: int = 0) -> Dict[str, ast.AST]:
    """Kept for importers: constant keys (first value) of the mapping *expr* evaluates to."""
    out: Dict[str, ast.AST] = {}
    if isinstance(expr, (ast.Dict, ast.IfExp)):
        out.update(dict_items_built(fn, expr))
    if isinstance(expr, ast.Name):
        for v in assigned_value(fn, expr.id):
            out.update(mapping_keys_of(mod, fn, v, depth))
        for _st, k, v in key_stores(fn, expr.id):
            out.setdefault(k, v)
    if isinstance(expr, ast.Call) and depth < 2:
        callee = mod.defs.get(call_attr(expr) or "")
        if isinstance(callee, FuncNode):
            for r in walk_no_nested(callee):
                if isinstance(r, ast.Return) and r.value is not None:
                    out.update(mapping_keys_of(mod, callee, r.value, depth + 1))
    return out


def dict_literal_keys(d: ast.AST) -> Set[str]:
    return {k.value for k in d.keys if isinstance(k, ast.Constant)} if isinstance(d, ast.Dict) else set()


def derives_whole(repo: Repo, rel: str, fn: ast.AST, e: Optional[ast.AST], roots: Set[str], _seen: Optional[Set[str]] = None, root_pred=None, key_filters: bool = True) -> bool:
    """*e* is one of the *roots* (parameters / locals standing for the complete object) or is computed from one
    by operations that keep every element: copies, sorting, re-listing, element-wise comprehensions without a
    condition (key filters of a mapping comprehension are judged by the dropped-key rule), functions of the same
    module applied to the whole object.  Subscripts, `.get`, slices, filters make a *part* of the object.
    *root_pred(e)* recognises a root that is an expression (an attribute read); with *key_filters=False* no
    element may be skipped at all."""
    _seen = _seen if _seen is not None else set()
    if e is None:
        return False
    if root_pred is not None and root_pred(e):
        return True
    if isinstance(e, ast.Name):
        if e.id in roots:
            return True
        if e.id in _seen:
            return True  # a local re-bound to something computed from itself (`payload = dumps(f(payload))`): judged by its other bindings
        _seen.add(e.id)
        vals = assigned_value(fn, e.id)
        if vals and all(_is_empty_container(v) for v in vals):
            return _accumulated_whole(repo, rel, fn, e.id, roots, _seen, root_pred, key_filters)
        return bool(vals) and all(derives_whole(repo, rel, fn, v, roots, _seen, root_pred, key_filters) for v in vals)
    if isinstance(e, ast.IfExp):
        return derives_whole(repo, rel, fn, e.body, roots, _seen, root_pred, key_filters) and derives_whole(repo, rel, fn, e.orelse, roots, _seen, root_pred, key_filters)
    if isinstance(e, ast.JoinedStr):
        return any(isinstance(v, ast.FormattedValue) and derives_whole(repo, rel, fn, v.value, roots, _seen, root_pred, key_filters) for v in e.values)
    if isinstance(e, ast.BinOp) and isinstance(e.op, ast.Add):
        return derives_whole(repo, rel, fn, e.left, roots, _seen, root_pred, key_filters) or derives_whole(repo, rel, fn, e.right, roots, _seen, root_pred, key_filters)
    if isinstance(e, ast.Call):
        nm = call_attr(e)
        if isinstance(e.func, ast.Attribute) and nm in WHOLE_METHODS:
            return derives_whole(repo, rel, fn, e.func.value, roots, _seen, root_pred, key_filters)
        if nm in WHOLE_FUNCS or nm == "dumps":
            return bool(e.args) and derives_whole(repo, rel, fn, e.args[-1] if nm == "cast" else e.args[0], roots, _seen, root_pred, key_filters)
        if _local_callee(repo, rel, fn, e) is not None:
            return bool(e.args) and derives_whole(repo, rel, fn, e.args[0], roots, _seen, root_pred, key_filters)
        return False
    if isinstance(e, (ast.ListComp, ast.SetComp, ast.GeneratorExp, ast.DictComp)):
        if len(e.generators) != 1:
            return False
        g = e.generators[0]
        tnames = {x.id for x in ast.walk(g.target) if isinstance(x, ast.Name)}
        key_var = g.target.elts[0].id if isinstance(g.target, ast.Tuple) and g.target.elts and isinstance(g.target.elts[0], ast.Name) else None
        for t in g.ifs:
            if not (key_filters and isinstance(e, ast.DictComp) and key_var is not None and _is_key_filter(t, {key_var})):
                return False
        body = [e.key, e.value] if isinstance(e, ast.DictComp) else [e.elt]
        used = {x.id for b in body for x in ast.walk(b) if isinstance(x, ast.Name)}
        if not tnames <= used:
            return False
        if any(isinstance(x, ast.Subscript) and isinstance(x.value, ast.Name) and x.value.id in tnames for b in body for x in ast.walk(b)):
            return False
        return derives_whole(repo, rel, fn, g.iter, roots, _seen, root_pred, key_filters)
    return False


def _is_empty_container(v: ast.AST) -> bool:
    return (isinstance(v, (ast.List, ast.Set)) and not v.elts) or (isinstance(v, ast.Dict) and not v.keys) or (isinstance(v, ast.Call) and call_attr(v) in ("list", "dict", "set", "OrderedDict") and not v.args and not v.keywords)


def _accumulated_whole(repo: Repo, rel: str, fn: ast.AST, name: str, roots: Set[str], _seen: Set[str], root_pred=None, key_filters: bool = True) -> bool:
    """The local *name* starts empty and is filled, one element per element, in loops over a whole object: every
    store `name[k] = v` / `name.append(v)` / `name.add(v)` sits in a loop whose iterable derives whole, uses every
    loop variable, and is skipped only by key filters of a mapping traversal (judged by the dropped-key rule)."""
    stores: List[Tuple[ast.AST, List[ast.AST]]] = []
    for n in _fn_stmts(fn):
        if isinstance(n, ast.Assign):
            for t in n.targets:
                if isinstance(t, ast.Subscript) and isinstance(t.value, ast.Name) and t.value.id == name:
                    stores.append((n, [t.slice, n.value]))
        elif isinstance(n, ast.Call) and isinstance(n.func, ast.Attribute) and n.func.attr in ("append", "add") and isinstance(n.func.value, ast.Name) and n.func.value.id == name and len(n.args) == 1:
            stores.append((stmt_of(n), [n.args[0]]))
        elif isinstance(n, ast.Call) and isinstance(n.func, ast.Attribute) and n.func.attr in GROW_METHODS and isinstance(n.func.value, ast.Name) and n.func.value.id == name:
            return False
    if not stores:
        return False
    for st, body in stores:
        loop = next((a for a in ancestors(st) if isinstance(a, ast.For)), None)
        if loop is None or loop.orelse or any(isinstance(x, (ast.Break, ast.Return)) for x in ast.walk(loop)):
            return False
        tnames = {x.id for x in ast.walk(loop.target) if isinstance(x, ast.Name)}
        key_var = loop.target.elts[0].id if isinstance(loop.target, ast.Tuple) and loop.target.elts and isinstance(loop.target.elts[0], ast.Name) else None
        is_map = len(body) == 2 and key_var is not None
        used = {x.id for b in body for x in flow(fn, b) if isinstance(x, ast.Name)}  # also through locals of the loop body
        if not tnames <= used:
            return False
        conds = [a.test for a in ancestors(st) if isinstance(a, ast.If) and any(a is x for x in ast.walk(loop))]
        conds += [x.test for x in ast.walk(loop) if isinstance(x, ast.If) and any(isinstance(y, ast.Continue) for y in ast.walk(x))]
        if any(not (key_filters and is_map and _is_key_filter(t, {key_var})) for t in conds):
            return False
        if not derives_whole(repo, rel, fn, loop.iter, roots, _seen, root_pred, key_filters):
            return False
    return True


def _is_key_filter(test: ast.AST, key_vars: Set[str]) -> bool:
    return any(isinstance(c, ast.Compare) and any(isinstance(x, ast.Name) and x.id in key_vars for side in [c.left] + list(c.comparators) for x in ast.walk(side)) for c in ast.walk(test))


# ---------------------------------------------------------------------------------------------------------
# D1
# ---------------------------------------------------------------------------------------------------------

def _hashed_node_objects(bcs: ast.AST) -> Tuple[List[ast.Call], List[ast.AST]]:
    """(uuid5 calls, the objects serialised into their name argument)."""
    uu = [c for c in walk_no_nested(bcs) if isinstance(c, ast.Call) and call_attr(c) == "uuid5"]
    objs: List[ast.AST] = []
    for c in uu:
        name_arg = c.args[1] if len(c.args) > 1 else kwarg(c, "name")
        for d in calls_to(flow(bcs, name_arg), "dumps"):
            if d.args:
                objs.append(d.args[0])
    return uu, objs


def _callee_effective_value(repo: Repo, rel: str, fn: ast.AST, call: ast.Call, key: str) -> Optional[ast.AST]:
    """What the mapping returned by the same-module function *call* invokes holds under *key*; a parameter of the
    callee is translated into the argument expression of the caller."""
    hit = _local_callee(repo, rel, fn, call)
    if hit is None:
        return None
    callee = NF(repo, rel, hit[0])
    rets = [x for x in walk_no_nested(callee) if isinstance(x, ast.Return) and x.value is not None]
    if len(rets) != 1:
        return None
    v = _effective_value(callee, CFG(callee, may_raise=lambda p: set()), rets[0].value, key, rets[0], 0, repo, rel)
    if isinstance(v, ast.Name) and v.id in _params_of(callee) and not assigned_value(callee, v.id):
        a = callee.args
        pos = [x.arg for x in a.posonlyargs + a.args]
        bound: Dict[str, ast.AST] = dict(zip(pos, call.args))
        bound.update({k.arg: k.value for k in call.keywords if k.arg})
        defaults = dict(zip(pos[len(pos) - len(a.defaults):], a.defaults))
        return bound.get(v.id, defaults.get(v.id))
    return v


def _effective_value(bcs: ast.AST, g: CFG, obj: ast.AST, key: str, use_stmt: ast.AST, _depth: int = 0, repo: Optional[Repo] = None, rel: str = "") -> Optional[ast.AST]:
    """The expression that sits under *key* of the mapping *obj* when *use_stmt* serialises it; None when it
    cannot be told (several competing stores, a store that does not always happen before the use)."""
    if _depth > 6:
        return None
    if isinstance(obj, ast.Dict):
        val: Optional[ast.AST] = None
        for k, v in zip(obj.keys, obj.values):
            if k is None:
                sub = _effective_value(bcs, g, v, key, use_stmt, _depth + 1, repo, rel)
                val = sub if sub is not None else val
            elif isinstance(k, ast.Constant) and k.value == key:
                val = v
        return val
    if isinstance(obj, ast.Call):
        nm = call_attr(obj)
        if nm in ("dict", "OrderedDict"):
            kw = kwarg(obj, key)
            if kw is not None:
                return kw
            return _effective_value(bcs, g, obj.args[0], key, use_stmt, _depth + 1, repo, rel) if obj.args else None
        if nm == "copy" and isinstance(obj.func, ast.Attribute) and not obj.args:
            return _effective_value(bcs, g, obj.func.value, key, use_stmt, _depth + 1, repo, rel)
        if nm == "deepcopy" and obj.args:
            return _effective_value(bcs, g, obj.args[0], key, use_stmt, _depth + 1, repo, rel)
        return _callee_effective_value(repo, rel, bcs, obj, key) if repo is not None else None
    if isinstance(obj, ast.IfExp):
        a = _effective_value(bcs, g, obj.body, key, use_stmt, _depth + 1, repo, rel)
        b = _effective_value(bcs, g, obj.orelse, key, use_stmt, _depth + 1, repo, rel)
        return a if a is not None and b is not None and ast.dump(a) == ast.dump(b) else None
    if isinstance(obj, ast.Name):
        stores = [(st, v) for st, k, v in key_stores(bcs, obj.id) if k == key]
        use_nodes = g.nodes_for(use_stmt)
        if stores:
            if len(stores) != 1 or not use_nodes:
                return None
            st, v = stores[0]
            st_nodes = g.nodes_for(st)
            if not st_nodes:
                return None
            # the store lies on every path to the serialisation (dominance, not line order)
            if all(g.dominated_by_node(u, st_nodes[0]) for u in use_nodes):
                return v
            return None
        vals = assigned_value(bcs, obj.id)
        if len(vals) == 1:
            return _effective_value(bcs, g, vals[0], key, use_stmt, _depth + 1, repo, rel)
    return None


def _enclosing_stmt(fn: ast.AST, node: ast.AST) -> ast.AST:
    cur = node
    while not isinstance(cur, ast.stmt):
        p = parent(cur)
        if p is None or p is fn:
            break
        cur = p
    return cur


def _key_vars(fn: ast.AST) -> Set[str]:
    """Locals that range over the keys of a mapping."""
    out: Set[str] = set()
    for g in ast.walk(fn):
        if isinstance(g, (ast.comprehension, ast.For)):
            it, tg = g.iter, g.target
            if isinstance(it, ast.Call) and call_attr(it) in ("sorted", "list", "tuple") and it.args:
                it = it.args[0]
            if isinstance(it, ast.Call) and call_attr(it) == "items" and isinstance(tg, ast.Tuple) and tg.elts and isinstance(tg.elts[0], ast.Name):
                out.add(tg.elts[0].id)
            elif isinstance(tg, ast.Name) and (isinstance(it, ast.Name) or (isinstance(it, ast.Call) and call_attr(it) == "keys")):
                out.add(tg.id)
    return out


def _module_strings(mod: Module, e: ast.AST, depth: int = 0) -> Set[str]:
    """String constants of *e*, module-level names in it resolved to the strings of their definitions."""
    out: Set[str] = set()
    for x in ast.walk(e):
        if isinstance(x, ast.Constant) and isinstance(x.value, str):
            out.add(x.value)
        elif isinstance(x, ast.Name) and depth < 3:
            for st in mod.tree.body:
                tgts = st.targets if isinstance(st, ast.Assign) else [st.target] if isinstance(st, ast.AnnAssign) and st.value is not None else []
                if any(isinstance(t, ast.Name) and t.id == x.id for t in tgts):
                    out |= _module_strings(mod, st.value, depth + 1)
    return out


def _dropped_keys(mod: Module, fn: ast.AST) -> Set[str]:
    """Key spellings that a comparison with a key variable, a `pop` or a `del` in *fn* (nested defs included) names."""
    dropped: Set[str] = set()
    kv = _key_vars(fn)
    for c in ast.walk(fn):
        if isinstance(c, ast.Compare):
            sides = [c.left] + list(c.comparators)
            for i, s in enumerate(sides):
                core = s.args[0] if isinstance(s, ast.Call) and call_attr(s) == "str" and s.args else s
                if isinstance(core, ast.Name) and core.id in kv:
                    for j, o in enumerate(sides):
                        if j != i:
                            dropped |= _module_strings(mod, o)
        elif isinstance(c, ast.Call) and call_attr(c) == "pop" and c.args and isinstance(c.args[0], ast.Constant) and isinstance(c.args[0].value, str):
            dropped.add(c.args[0].value)
        elif isinstance(c, ast.Delete):
            for t in c.targets:
                if isinstance(t, ast.Subscript) and isinstance(t.slice, ast.Constant) and isinstance(t.slice.value, str):
                    dropped.add(t.slice.value)
    return dropped


def _params_of(fn: ast.AST) -> List[str]:
    return [a.arg for a in fn.args.posonlyargs + fn.args.args + fn.args.kwonlyargs]


def _node_lists(cps: ast.AST, spec_param: str) -> List[Tuple[bool, ast.AST, Optional[str], ast.AST]]:
    """Per-node structures built over the nodes of the spec: (complete and in order, element expression,
    accumulator local or None, construct)."""
    out: List[Tuple[bool, ast.AST, Optional[str], ast.AST]] = []

    def nodes_iter(it: ast.AST) -> bool:
        fl = flow(cps, it)
        return any(isinstance(x, ast.Name) and x.id == spec_param for x in fl) and any(isinstance(x, ast.Constant) and x.value == "nodes" for x in fl)

    def unordered(it: ast.AST) -> bool:
        fl = flow(cps, it)
        return bool(calls_to(fl, *REORDERING)) or any(isinstance(x, ast.Subscript) and isinstance(x.slice, ast.Slice) for x in fl)

    for n in _fn_stmts(cps):
        if isinstance(n, (ast.ListComp, ast.GeneratorExp)) and nodes_iter(n.generators[0].iter):
            ok = len(n.generators) == 1 and not n.generators[0].ifs and not unordered(n.generators[0].iter)
            out.append((ok, n.elt, None, n))
        elif isinstance(n, ast.For) and nodes_iter(n.iter):
            appends = [c for c in calls_in(n) if call_attr(c) == "append" and c.args and isinstance(c.func, ast.Attribute) and isinstance(c.func.value, ast.Name)]
            for c in appends:
                unconditional = parent(stmt_of(c)) is n and stmt_of(c) in n.body
                ok = unconditional and not n.orelse and not any(isinstance(x, (ast.Continue, ast.Break, ast.Return)) for x in ast.walk(n)) and not unordered(n.iter)
                out.append((ok, c.args[0], c.func.value.id, n))  # type: ignore[union-attr]
    return out


def field_coverage(repo: Repo, R: Report) -> None:
    r = R.rule("C05-D1-field-coverage", "every identity-bearing field reaches the bytes that are hashed: node uuid <- whole canonical node (role, processor_ref, full-depth params, ports, declaration index); node semantic id <- whole sweep metadata minus exactly the UI-only keys; pipeline semantic id <- node uuid and node semantic id of every node in order; config id <- every (uuid, semantic id) pair; pipeline id <- whole canonical graph", 16)
    # --- node uuid: the mapping serialised into the name of uuid5 is the complete canonical node
    repo.func(GRAPH, "_canonical_node")  # anchor
    bcs = NF(repo, GRAPH, "build_canonical_spec")
    uu, objs = _hashed_node_objects(bcs)
    keys: Dict[str, List[ast.AST]] = {}
    for i, o in enumerate(objs):
        ki = mapping_items(repo, GRAPH, bcs, o)
        keys = ki if i == 0 else {k: v for k, v in keys.items() if k in ki}
    for k in sorted(CANON_KEYS):
        R.check(k in keys, r, GRAPH, "_canonical_node", f"canonical node carries {k!r}", f"field {k!r} no longer enters the canonical node: two configurations differing only there get the same node uuid", bcs.lineno)
    ok = bool(uu) and bool(objs) and CANON_KEYS <= set(keys)
    R.check(ok, r, GRAPH, "build_canonical_spec", "node_uuid = uuid5(ns, json.dumps(<whole canonical node>))", "the node uuid is not derived from the complete canonical node", bcs.lineno)
    g = CFG(bcs, may_raise=lambda p: set())
    ok = bool(objs)
    for o in objs:
        v = _effective_value(bcs, g, o, "params", _enclosing_stmt(bcs, o), 0, repo, GRAPH)
        ok = ok and isinstance(v, ast.Call) and call_attr(v) == "descriptor_to_json" and len(v.args) == 1 and any(call_attr(c) == "resolve_parameters" for c in calls_to(flow(bcs, v.args[0]), "resolve_parameters"))
    R.check(ok, r, GRAPH, "build_canonical_spec", "canon['params'] = descriptor_to_json(params) before hashing", "the effective parameter map (full depth, as given) is not what gets hashed into the node uuid", bcs.lineno)
    # --- pipeline id
    cpi = NF(repo, GRAPH, "compute_pipeline_id")
    roots = set(_params_of(cpi)[:1])
    rets = [x.value for x in walk_no_nested(cpi) if isinstance(x, ast.Return) and x.value is not None]
    d = [c for rv in rets for c in calls_to(flow(cpi, rv), "dumps")]
    ok = bool(d) and all(c.args and derives_whole(repo, GRAPH, cpi, c.args[0], roots) for c in d)
    R.check(ok, r, GRAPH, "compute_pipeline_id", "json.dumps(<whole canonical spec>)", "pipeline id hashes only a part of the canonical graph", cpi.lineno)
    # --- node semantic id: only UI-only keys (top level) and the raw expression text (by position) are dropped
    sem = repo.module(SEM)
    cns = NF(repo, SEM, "compute_node_semantic_id")
    inner = [n for n in ast.walk(cns) if isinstance(n, FuncNode) and n is not cns]
    helpers: List[Tuple[str, ast.AST]] = [(qualname_of(n), n) for n in inner]
    for c in ast.walk(cns):
        if isinstance(c, ast.Call) and isinstance(c.func, ast.Name):
            t = sem.defs.get(c.func.id)
            if isinstance(t, FuncNode) and all(t.name != h.name for _q, h in helpers):
                helpers.append((c.func.id, t))
    bodies: List[Tuple[str, ast.AST]] = [("compute_node_semantic_id", cns)]
    for qn, h0 in helpers:
        bodies.append((qn, h0 if any(h0 is n for n in inner) else NF(repo, SEM, qn)))
    dropped: Set[str] = set()
    for _qn, h in bodies:
        dropped |= _dropped_keys(sem, h)
    ui_dropped = dropped - CANON_DROP_ALLOWED
    R.check(ui_dropped <= UI_ONLY_ALLOWED, r, SEM, "<module>", f"_UI_ONLY_KEYS = {sorted(ui_dropped)}", f"keys {sorted(ui_dropped - UI_ONLY_ALLOWED)} are stripped before hashing the node semantic id: differences there no longer change any id", cns.lineno)
    R.check(dropped <= CANON_DROP_ALLOWED | UI_ONLY_ALLOWED, r, SEM, "compute_node_semantic_id", f"keys dropped by canonicalisation: {sorted(dropped)}", f"{sorted(dropped - CANON_DROP_ALLOWED - UI_ONLY_ALLOWED)} are dropped before hashing", cns.lineno)
    # a key may be dropped by *position* only: a filter on the key's spelling inside a function that recurses over
    # the whole metadata removes user-chosen names (a sweep variable or parameter that happens to be called like the
    # dropped field) at every depth, and with them their domains / expressions
    n_filters = 0
    for qn, h in bodies:
        is_outer = h is cns
        params = _params_of(h)
        rec_calls = [] if is_outer else [c for c in ast.walk(h) if isinstance(c, ast.Call) and isinstance(c.func, ast.Name) and c.func.id == h.name]
        varying: Set[str] = set()  # parameters whose value changes along the recursion (a depth / path argument)
        for c in rec_calls:
            bound = dict(zip(params, c.args))
            bound.update({k.arg: k.value for k in c.keywords if k.arg})
            for pn, v in bound.items():
                if not (isinstance(v, ast.Name) and v.id == pn) and pn != params[0]:
                    varying.add(pn)
        # locals computed from a varying parameter vary too
        grew = True
        while grew:
            grew = False
            for n in walk_no_nested(h):
                if isinstance(n, ast.Assign) and len(n.targets) == 1 and isinstance(n.targets[0], ast.Name) and n.targets[0].id not in varying and any(isinstance(x, ast.Name) and x.id in varying for x in ast.walk(n.value)):
                    varying.add(n.targets[0].id)
                    grew = True
        kv = _key_vars(h)
        tests: List[ast.AST] = []
        for n in (walk_no_nested(h) if is_outer else ast.walk(h)):
            if isinstance(n, ast.comprehension):
                tests.extend(n.ifs)
            elif isinstance(n, (ast.If, ast.IfExp)):
                tests.append(n.test)
        for t in tests:
            if not _is_key_filter(t, kv):
                continue
            n_filters += 1
            names = {x.id for x in ast.walk(t) if isinstance(x, ast.Name)}
            positional = not rec_calls or bool(names & varying)
            R.check(positional, r, SEM, qn, f"key filter `{_u(t)[:80]}`", "a key is dropped by its spelling at every depth of the metadata (recursive traversal without a position test): a sweep variable or parameter with that name - and its domain / expression - never reaches the node semantic id", t.lineno)
    if n_filters == 0:
        raise AnalysisError("compute_node_semantic_id: no key filter found (UI-only / raw-expression stripping vanished)")
    roots = set(_params_of(cns)[:1])
    rets = [x.value for x in walk_no_nested(cns) if isinstance(x, ast.Return) and x.value is not None]
    hd = [c for rv in rets for c in calls_to(flow(cns, rv), "dumps")]
    ok = bool(hd) and all(c.args and derives_whole(repo, SEM, cns, c.args[0], roots) for c in hd)
    R.check(ok, r, SEM, "compute_node_semantic_id", "hash(json.dumps(canonicalise(_strip_ui_only(meta))))", "node semantic id does not hash the whole (UI-stripped) metadata", cns.lineno)
    # --- pipeline semantic id
    cps = NF(repo, SEM, "compute_pipeline_semantic_id")
    param = _params_of(cps)[0]
    rets = [x.value for x in walk_no_nested(cps) if isinstance(x, ast.Return) and x.value is not None]
    hashed_flow = [x for rv in rets for c in calls_to(flow(cps, rv), "dumps") if c.args for x in flow(cps, c.args[0])]
    hashed_ids = {id(x) for x in hashed_flow}
    hashed_names = {x.id for x in hashed_flow if isinstance(x, ast.Name)}
    lists = [(ok_, elt, acc, n) for ok_, elt, acc, n in _node_lists(cps, param) if (id(n) in hashed_ids if acc is None else acc in hashed_names)]
    ok = bool(lists) and all(t[0] for t in lists)
    per_node: Dict[str, List[ast.AST]] = {}
    for i, (_ok, elt, _acc, _n) in enumerate(lists):
        pi = mapping_items(repo, SEM, cps, elt)
        per_node = pi if i == 0 else {k: v for k, v in per_node.items() if k in pi}
    R.check(ok, r, SEM, "compute_pipeline_semantic_id", "per-node list over all canonical nodes, in order, unfiltered", "nodes are filtered / reordered before hashing: number or order of nodes can change without changing the semantic id", cps.lineno)
    R.check("node_uuid" in per_node, r, SEM, "compute_pipeline_semantic_id", "per-node structure contains node_uuid", "node uuid (processor, parameters, position) does not reach the pipeline semantic id", cps.lineno)
    R.check("node_semantic_id" in per_node, r, SEM, "compute_pipeline_semantic_id", "per-node structure contains node_semantic_id", "the sweep definition (wrapped processor, expressions, domains, mode, broadcast, collection) never reaches the pipeline semantic id: generated sweep classes share one processor_ref", cps.lineno)
    uv = per_node.get("node_uuid") or []
    R.check(bool(uv) and all(reads_key(flow(cps, v), "node_uuid") for v in uv), r, SEM, "compute_pipeline_semantic_id", "node_uuid = node['node_uuid']", "the rolled-up node uuid is not the canonical node's uuid", cps.lineno)
    nsv = per_node.get("node_semantic_id") or []
    ok = bool(nsv) and all(any(c.args and reads_key(flow(cps, c.args[0]), "preprocessor_metadata") for c in calls_to(flow(cps, v), "compute_node_semantic_id")) for v in nsv)
    R.check(ok, r, SEM, "compute_pipeline_semantic_id", "node_semantic_id = compute_node_semantic_id(node['preprocessor_metadata'])", "the rolled-up node semantic id is not computed from the node's preprocessor metadata", cps.lineno)
    R.check(bool(lists), r, SEM, "compute_pipeline_semantic_id", "hash(json.dumps(pipeline_structure))", "the per-node structure is not what gets hashed", cps.lineno)
    # --- config id
    cpc = NF(repo, SEM, "compute_pipeline_config_id")
    roots = set(_params_of(cpc)[:1])
    rets = [x.value for x in walk_no_nested(cpc) if isinstance(x, ast.Return) and x.value is not None]
    hs = [c for rv in rets for c in calls_to(flow(cpc, rv), "dumps", "_sha256_json")]
    ok = bool(hs) and all(c.args and derives_whole(repo, SEM, cpc, c.args[0], roots) for c in hs)
    R.check(ok, r, SEM, "compute_pipeline_config_id", "hash of all (uuid, semantic id) pairs", "config id does not cover every pair", cpc.lineno)


# ---------------------------------------------------------------------------------------------------------
# D1b  the parameter map is serialised value by value, unchanged
# ---------------------------------------------------------------------------------------------------------

# conversions that map distinct values to one value (numeric narrowing / rounding, text folding, summaries)
NARROWING_FUNCS = {
    "float", "int", "round", "bool", "abs", "hash", "len", "type", "complex", "str", "repr", "format", "ascii", "bytes", "ord", "chr",
    "floor", "ceil", "trunc", "fsum", "sum", "min", "max", "any", "all", "id", "bin", "hex", "oct", "divmod", "pow", "set", "frozenset",
    "sorted", "reversed", "float16", "float32", "float64", "int8", "int16", "int32", "int64", "Decimal", "Fraction", "isoformat", "basename", "normpath",
    "lower", "upper", "casefold", "strip", "lstrip", "rstrip", "title", "capitalize", "swapcase", "split", "rsplit", "replace", "join", "encode", "decode",
    "keys", "values", "get", "pop", "hexdigest", "digest", "sha256", "md5", "sha1", "__class__", "__name__", "__qualname__",
}
# calls that hand back their (first) argument / receiver with every element and every value kept
LOSSLESS_FUNCS = {"dict", "list", "tuple", "deepcopy", "copy", "OrderedDict", "cast"}
LOSSLESS_METHODS = {"copy", "items", "tolist", "item"}


class _Conv:
    """Verdict on one expression of a converter: ok / lossy (with the offending node) / unknown."""

    def __init__(self) -> None:
        self.lossy: List[Tuple[ast.AST, str]] = []
        self.unknown: List[ast.AST] = []
        self.kept = 0  # places where the value itself (a leaf, an element, a field) is handed on unchanged


def _mentions(e: ast.AST, names: Set[str]) -> bool:
    return any(isinstance(x, ast.Name) and x.id in names for x in ast.walk(e))


def _conversion(repo: Repo, rel: str, fn: ast.AST, e: Optional[ast.AST], roots: Set[str], out: _Conv, self_names: Set[str], depth: int = 0, _seen: Optional[Set[str]] = None) -> None:
    """Judge how *e* is computed from the value(s) named by *roots* inside *fn*: the value itself, a container
    rebuilt element by element with the same conversion applied to every element, the serialisation of a descriptor
    object over all its fields - or a conversion that folds distinct values together (recorded in *out.lossy*).
    *self_names*: names under which the converter calls itself."""
    _seen = _seen if _seen is not None else set()
    if e is None or depth > 8:
        out.unknown.append(e if e is not None else fn)
        return
    rec = lambda x, r=roots: _conversion(repo, rel, fn, x, r, out, self_names, depth + 1, _seen)  # noqa: E731
    if isinstance(e, ast.Name):
        if e.id in roots:
            out.kept += 1
            rebound = [v for v in name_values(fn, e.id)] if e.id in _params_of(fn) else []
            key = f"{id(fn)}:{e.id}"
            if rebound and key not in _seen:
                _seen.add(key)
                for v in rebound:
                    rec(v)
            return
        key = f"{id(fn)}:{e.id}"
        if key in _seen:
            return
        _seen.add(key)
        for v in assigned_value(fn, e.id):  # none: a name of the enclosing scope, no function of the value
            rec(v)
        return
    if not _mentions(e, roots) and not any(isinstance(x, ast.Name) and assigned_value(fn, x.id) for x in ast.walk(e)):
        return  # no function of the value at all (a constant tag)
    if isinstance(e, (ast.Attribute, ast.Subscript)) and _u(e) in roots:
        out.kept += 1
        return
    if isinstance(e, ast.IfExp):
        rec(e.body)
        rec(e.orelse)
        return
    if isinstance(e, ast.NamedExpr):
        rec(e.value)
        return
    if isinstance(e, (ast.List, ast.Tuple)):
        for x in e.elts:
            rec(x.value if isinstance(x, ast.Starred) else x)
        return
    if isinstance(e, ast.Dict):
        # a mapping written out from the attributes of the value (`{'class': obj.class_path, ...}`): the serialisation
        # of a descriptor object in place - every annotated field of its class has to be there
        attrs = {x.attr for x in flow(fn, e) if isinstance(x, ast.Attribute) and isinstance(x.value, ast.Name) and x.value.id in roots}
        inner_roots = roots
        if attrs:
            owners = [(c.name, fs) for c in ast.walk(repo.module(rel).tree) if isinstance(c, ast.ClassDef) for fs in [[st.target.id for st in c.body if isinstance(st, ast.AnnAssign) and isinstance(st.target, ast.Name)]] if fs and attrs <= set(fs)]
            if len(owners) == 1:
                cname, fs = owners[0]
                for f in fs:
                    if f not in attrs:
                        out.lossy.append((e, f"field `{f}` of {cname} never reaches its serialised form"))
                inner_roots = roots | {f"{rt}.{f}" for rt in roots for f in fs}
        for k, v in zip(e.keys, e.values):
            if k is not None:
                rec(k, inner_roots)
            rec(v, inner_roots)
        return
    if isinstance(e, (ast.ListComp, ast.GeneratorExp, ast.DictComp)):
        if len(e.generators) != 1:
            out.unknown.append(e)
            return
        g = e.generators[0]
        if g.ifs:
            out.lossy.append((g.ifs[0], "elements are filtered out"))
            return
        it = g.iter
        # the order of a mapping's items is immaterial (the hashed text is dumped with sorted keys); the order of a list is not
        while isinstance(it, ast.Call) and ((call_attr(it) in LOSSLESS_FUNCS and it.args) or (isinstance(it.func, ast.Attribute) and call_attr(it) in LOSSLESS_METHODS and not it.args) or (isinstance(e, ast.DictComp) and call_attr(it) == "sorted" and len(it.args) == 1)):
            it = it.args[-1 if call_attr(it) == "cast" else 0] if it.args else it.func.value  # type: ignore[union-attr]
        inner = _Conv()
        _conversion(repo, rel, fn, it, roots, inner, self_names, depth + 1, _seen)
        if inner.lossy or inner.unknown:
            out.lossy.extend((n, "the container is not traversed completely and in order: " + w) for n, w in inner.lossy)
            out.unknown.extend(inner.unknown)
            return
        tnames = {x.id for x in ast.walk(g.target) if isinstance(x, ast.Name)}
        body = [e.key, e.value] if isinstance(e, ast.DictComp) else [e.elt]
        used = {x.id for b in body for x in ast.walk(b) if isinstance(x, ast.Name)}
        if not tnames <= used:
            out.lossy.append((e, f"{sorted(tnames - used)} of every element never reach the result"))
            return
        # `for k in m` with `m[k]` in the body: the element of a mapping traversed by key
        elem_roots = set(tnames)
        if isinstance(g.target, ast.Name) and isinstance(it, ast.Name):
            elem_roots.add(f"{it.id}[{g.target.id}]")
        for b in body:
            _conversion(repo, rel, fn, b, elem_roots, out, self_names, depth + 1, _seen)
        return
    if isinstance(e, ast.Call):
        nm = call_attr(e)
        args = list(e.args) + [k.value for k in e.keywords]
        if isinstance(e.func, ast.Name) and e.func.id in self_names and e.args:
            rec(e.args[0])
            return
        if nm == "map" and len(e.args) == 2 and isinstance(e.args[0], ast.Name) and e.args[0].id in self_names:
            rec(e.args[1])
            return
        if isinstance(e.func, ast.Attribute) and nm in LOSSLESS_METHODS and not e.args:
            rec(e.func.value)
            return
        if nm in LOSSLESS_FUNCS and e.args and not isinstance(e.func, ast.Attribute) or (nm in ("deepcopy", "copy") and e.args):
            rec(e.args[-1] if nm == "cast" else e.args[0])
            return
        if nm in NARROWING_FUNCS:
            out.lossy.append((e, f"`{_u(e)[:60]}` maps distinct values to one"))
            return
        # the serialisation method of a descriptor object: every field of the class reaches the result unchanged
        if isinstance(e.func, ast.Attribute) and not e.args and not e.keywords and _mentions(e.func.value, roots):
            meths = [(qn, d) for qn, d in repo.module(rel).defs.items() if isinstance(d, FuncNode) and d.name == nm and "." in qn]
            if meths:
                for qn, _d in meths:
                    _method_covers_fields(repo, rel, qn, out, self_names, depth)
                return
        hit = _local_callee(repo, rel, fn, e)
        if hit is not None and e.args:
            callee = NF(repo, rel, hit[0])
            ps = _params_of(callee)
            passed = {ps[i] for i, a in enumerate(e.args[: len(ps)]) if _mentions(a, roots) or any(isinstance(x, ast.Name) and assigned_value(fn, x.id) for x in ast.walk(a))}
            for a in e.args:
                rec(a)
            _returns_conversion(repo, rel, callee, passed, out, self_names | ({hit[0]} if hit[0] in self_names else set()), depth + 1)
            return
        out.unknown.append(e)
        return
    if isinstance(e, (ast.BinOp, ast.UnaryOp, ast.Compare, ast.JoinedStr, ast.BoolOp)):
        out.lossy.append((e, f"`{_u(e)[:60]}` is computed from the value instead of the value itself"))
        return
    if isinstance(e, (ast.Subscript, ast.Attribute)):
        out.lossy.append((e, f"`{_u(e)[:60]}` is only a part / an attribute of the value"))
        return
    out.unknown.append(e)


def _returns_conversion(repo: Repo, rel: str, fn: ast.AST, roots: Set[str], out: _Conv, self_names: Set[str], depth: int = 0) -> None:
    rets = [x for x in walk_no_nested(fn) if isinstance(x, ast.Return)]
    if not rets:
        out.unknown.append(fn)
    for r in rets:
        if r.value is None:
            out.unknown.append(r)
        else:
            _conversion(repo, rel, fn, r.value, roots, out, self_names, depth)


def _method_covers_fields(repo: Repo, rel: str, qualname: str, out: _Conv, self_names: Set[str], depth: int) -> None:
    """`obj.<method>()` of a class of the module: the returned value is built from every annotated field of the class,
    each through a lossless conversion."""
    cname, _, _m = qualname.rpartition(".")
    cdef = repo.module(rel).defs.get(cname)
    meth = NF(repo, rel, qualname)
    ps = _params_of(meth)
    if not isinstance(cdef, ast.ClassDef) or not ps:
        out.unknown.append(meth)
        return
    me = ps[0]
    fields = [st.target.id for st in cdef.body if isinstance(st, ast.AnnAssign) and isinstance(st.target, ast.Name)]
    rets = [x.value for x in walk_no_nested(meth) if isinstance(x, ast.Return) and x.value is not None]
    if not rets or not fields:
        out.unknown.append(meth)
        return
    for rv in rets:
        fl = flow(meth, rv)
        for f in fields:
            if not reads_attr(fl, f, me):
                out.lossy.append((rv, f"field `{f}` of {cname} never reaches its serialised form"))
        _conversion(repo, rel, meth, rv, {f"{me}.{f}" for f in fields} | {me}, out, self_names, depth + 1)


def params_lossless(repo: Repo, R: Report) -> None:
    r = R.rule("C05-D1b-params-serialised-unchanged", "the function that turns the effective parameter map into the JSON that is hashed into the node uuid keeps every value: a leaf is returned as it is, a container is rebuilt element by element (unfiltered, in order) with the same conversion, a descriptor object is serialised over all its fields; no value is passed through a conversion that folds distinct values together (numeric narrowing / rounding, text folding, truncation)", 3)
    bcs = NF(repo, GRAPH, "build_canonical_spec")
    _uu, objs = _hashed_node_objects(bcs)
    g = CFG(bcs, may_raise=lambda p: set())
    gmod = repo.module(GRAPH)
    targets: Dict[Tuple[str, str], ast.Call] = {}
    for o in objs:
        v = _effective_value(bcs, g, o, "params", _enclosing_stmt(bcs, o), 0, repo, GRAPH)
        if not isinstance(v, ast.Call):
            continue
        nm = dotted_name(v.func) or ""
        hit = repo.resolve_dotted(gmod.imports[nm.split(".")[0]] + nm[len(nm.split(".")[0]):]) if nm.split(".")[0] in gmod.imports else None
        if hit is None and isinstance(gmod.defs.get(nm), FuncNode):
            hit = (gmod, gmod.defs[nm])
        if hit is not None and isinstance(hit[1], FuncNode):
            targets[(hit[0].rel, qualname_of(hit[1]))] = v
    if not targets:
        raise AnalysisError("the converter of the hashed parameter map (descriptor_to_json) could not be resolved")
    for (rel, qn), call in sorted(targets.items()):
        conv = NF(repo, rel, qn)
        ps = _params_of(conv)
        if not ps:
            raise AnalysisError(f"{qn}: no parameter")
        out = _Conv()
        _returns_conversion(repo, rel, conv, {ps[0]}, out, {conv.name})
        for node, why in out.lossy:
            R.violation(r, rel, qn, norm(stmt_of(node))[:110] if parent(node) is not None else _u(node)[:110], f"a parameter value is changed on its way into the node uuid: {why}; two configurations that differ only in such a value (at any depth of the parameter map) get the same node uuid, semantic id and config id", getattr(node, "lineno", conv.lineno))
        if out.unknown and not out.lossy:
            raise AnalysisError(f"{qn}: conversion of unknown shape `{_u(out.unknown[0])[:80]}`")
        if not out.lossy:
            for _i in range(out.kept):
                R.ok(r, rel, qn, f"{qn}: leaf / element / descriptor field handed on unchanged", "", conv.lineno)


# ---------------------------------------------------------------------------------------------------------
# D2
# ---------------------------------------------------------------------------------------------------------

def _values_under_key(fn: ast.AST, key: str) -> List[ast.AST]:
    """Every expression written under the constant mapping key *key* in *fn*: `m[key] = v`, `{..., key: v}`
    (also with `**` spreads), `dict(m, key=v)`, `m.update({key: v})` / `m.update(key=v)`, `m.setdefault(key, v)`."""
    out: List[ast.AST] = []
    for n in ast.walk(fn):
        if isinstance(n, ast.Assign):
            if any(isinstance(t, ast.Subscript) and isinstance(t.slice, ast.Constant) and t.slice.value == key for t in n.targets):
                out.append(n.value)
        elif isinstance(n, ast.Dict):
            for k, v in zip(n.keys, n.values):
                if isinstance(k, ast.Constant) and k.value == key:
                    out.append(v)
        elif isinstance(n, ast.Call):
            if call_attr(n) in ("dict", "update"):
                out.extend(k.value for k in n.keywords if k.arg == key)
            if call_attr(n) == "setdefault" and len(n.args) == 2 and isinstance(n.args[0], ast.Constant) and n.args[0].value == key:
                out.append(n.args[1])
    return out


def _is_type_test(e: ast.AST) -> Optional[bool]:
    """atom for edges_guaranteeing: `isinstance(<x>, type)`."""
    if isinstance(e, ast.Call) and call_attr(e) == "isinstance" and len(e.args) == 2:
        t = e.args[1]
        if isinstance(t, ast.Name) and t.id == "type":
            return True
    return None


def _under_type_guard(node: ast.AST, fn: ast.AST) -> bool:
    child = node
    for a in ancestors(node):
        if a is fn:
            break
        if isinstance(a, ast.If):
            branch = "T" if any(child is s for s in a.body) else "F" if any(child is s for s in a.orelse) else None
            if branch is not None and branch in edges_guaranteeing(a.test, _is_type_test):
                return True
        child = a
    return False


def _processor_ref_rewrites(cn: ast.AST, e: ast.AST, cfg_param: str, guarded: bool, seen: Set[str]) -> List[ast.AST]:
    """Expressions through which the hashed processor_ref is something else than the configured value as written
    (a string stays itself; a class becomes module.qualname)."""
    if isinstance(e, ast.IfExp):
        g = edges_guaranteeing(e.test, _is_type_test)
        return _processor_ref_rewrites(cn, e.body, cfg_param, guarded or "T" in g, seen) + _processor_ref_rewrites(cn, e.orelse, cfg_param, guarded or "F" in g, seen)
    if isinstance(e, ast.BoolOp):
        return [x for v in e.values for x in _processor_ref_rewrites(cn, v, cfg_param, guarded, seen)]
    if isinstance(e, ast.Constant):
        return []
    if isinstance(e, ast.Call) and call_attr(e) == "get" and isinstance(e.func, ast.Attribute) and dotted_name(e.func.value) == cfg_param:
        return []
    if isinstance(e, ast.Subscript) and dotted_name(e.value) == cfg_param and isinstance(e.slice, ast.Constant):
        return []
    if isinstance(e, ast.JoinedStr):
        fl = list(ast.walk(e))
        if guarded and reads_attr(fl, "__qualname__") and reads_attr(fl, "__module__"):
            return []
        return [e]
    if isinstance(e, ast.Name):
        if e.id in seen:
            return []
        seen.add(e.id)
        out: List[ast.AST] = []
        defs = [n for n in walk_no_nested(cn) if isinstance(n, (ast.Assign, ast.AnnAssign)) and any(isinstance(t, ast.Name) and t.id == e.id for t in (n.targets if isinstance(n, ast.Assign) else [n.target])) and n.value is not None]
        if not defs:
            return [e]
        for d in defs:
            out.extend(_processor_ref_rewrites(cn, d.value, cfg_param, _under_type_guard(d, cn), seen))
        return out
    return [e]


def sweep_metadata(repo: Repo, R: Report) -> None:
    r = R.rule("C05-D2-sweep-definition-in-metadata", "generated sweep classes carry no identity in processor_ref; the whole sweep definition (wrapped processor, expression signatures, variable domains, mode, broadcast, collection, dependencies) is in the preprocessor metadata, and the same metadata object enriches the canonical nodes on the inspection and the run-time path; a string processor reference is hashed as written", 12)
    create = repo.func(SWEEP, "ParametricSweepFactory.create")
    # the function that builds the published sweep definition, by role: what the generated classes store under 'preprocessor'
    hook_vals = [v for v in _values_under_key(create, "preprocessor") if isinstance(v, ast.Call)]
    builders = {call_attr(v) for v in hook_vals}
    if len(builders) != 1:
        raise AnalysisError("_preprocessor_metadata not found")
    bname = builders.pop()
    pm0 = next((n for n in ast.walk(create) if isinstance(n, FuncNode) and n.name == bname), None) or repo.module(SWEEP).defs.get(bname)
    if not isinstance(pm0, FuncNode):
        raise AnalysisError("_preprocessor_metadata not found")
    pm_q = qualname_of(pm0)
    pm = NF(repo, SWEEP, pm_q)
    cls_p = _params_of(pm)[0] if _params_of(pm) else None
    keys = first_items(returned_mapping(repo, SWEEP, pm))
    sources = {
        "element_ref": "_element", "param_expressions": "_expr_src", "variables": "_vars", "mode": "_mode", "broadcast": "_broadcast", "collection": "_collection_output", "dependencies": "_required_external",
    }
    where = "ParametricSweepFactory.create._preprocessor_metadata"
    for k in sorted(SWEEP_META_KEYS):
        v = keys.get(k)
        R.check(v is not None and reads_attr(flow(pm, v), sources[k], cls_p), r, SWEEP, where, f"metadata[{k!r}] <- cls.{sources[k]}", f"the sweep's {k} does not reach the metadata that is hashed: changing it changes no id", pm.lineno)
    R.check(bool(calls_to(flow(pm, keys.get("param_expressions")), "normalize_expression_sig_v1")), r, SWEEP, where, "param_expressions[*].sig = normalize_expression_sig_v1(source)", "expression signatures are not computed from the expression source", pm.lineno)
    R.check(bool(calls_to(flow(pm, keys.get("variables")), "variable_domain_signature")), r, SWEEP, where, "variables[*] = variable_domain_signature(spec)", "variable domains are not summarised by the domain signature", pm.lineno)
    # ... and every declared variable / every parameter expression gets its entry: the per-name mappings are built
    # element by element over the complete class attribute, nothing is skipped (the sweep iterates over all declared
    # variables, referenced by an expression or not)
    for k in ("variables", "param_expressions"):
        attr = sources[k]
        is_root = lambda e, a=attr: reads_attr([e], a, cls_p)  # noqa: E731
        v = keys.get(k)
        whole = v is not None and derives_whole(repo, SWEEP, pm, v, set(), None, is_root, False)
        R.check(whole, r, SWEEP, where, f"metadata[{k!r}] has one entry for every item of cls.{attr}", f"metadata[{k!r}] is built from a part of cls.{attr} only (filtered / sliced / not every item used): a sweep that differs in one of the left-out entries - e.g. the domain of a variable no expression reads, which still multiplies the produced items - keeps all its ids", getattr(v, "lineno", pm.lineno))
    # every generated class publishes its definition (own hook or inherited from another generated class)
    gen = [c for c in ast.walk(create) if isinstance(c, ast.ClassDef)]
    publishing = {c.name for c in gen if any(isinstance(v, ast.Call) and call_attr(v) == bname for v in _values_under_key(c, "preprocessor"))}
    n_hooks = sum(1 for c in gen if c.name in publishing or any(dotted_name(b) in publishing for b in c.bases))
    R.check(bool(gen) and n_hooks == len(gen), r, SWEEP, "ParametricSweepFactory.create", "meta['preprocessor'] = _preprocessor_metadata(cls) in all three variants", f"only {n_hooks} of the {len(gen)} generated sweep variants publish their definition", create.lineno)
    # string processor refs are hashed as written
    cn = NF(repo, GRAPH, "_canonical_node")
    keys_cn = returned_mapping(repo, GRAPH, cn)
    pvs = keys_cn.get("processor_ref") or []
    cfg_p = _params_of(cn)[0]
    bad: List[ast.AST] = []
    for pv in pvs:
        bad.extend(_processor_ref_rewrites(cn, pv, cfg_p, False, set()))
    for b in bad:
        R.violation(r, GRAPH, "_canonical_node", "processor_ref rewritten before hashing", "a string processor reference is rewritten before hashing (e.g. resolved to a generated class whose name drops parts of the shorthand): `template:` / `rename:` / `delete:` nodes that differ in meaning get the same node uuid", getattr(b, "lineno", cn.lineno))
    if pvs and not bad:
        R.ok(r, GRAPH, "_canonical_node", "processor_ref: string kept as written, class -> module.qualname", "", cn.lineno)
    # same metadata object on both paths
    bip = nfunc(repo, BUILDER, "build_inspection_payload", keep=("_build_sweep_payload",))
    insp_p = next((a.arg for a in bip.args.kwonlyargs + bip.args.args if a.arg == "inspection"), "inspection")
    # only what is written into the node mappings handed to compute_pipeline_semantic_id counts (the display payload
    # legitimately carries the sanitised view); found by role through c04_rest.hashed_node_fields
    from .c04_rest import hashed_node_fields

    site = (hashed_node_fields(bip) or {}).get("preprocessor_metadata")
    stores = _values_under_key(site, "preprocessor_metadata") if site is not None else []
    ok = bool(stores)
    for v in stores:
        fl = flow(bip, v)
        ok = ok and reads_attr(fl, "nodes", insp_p) and reads_attr(fl, "preprocessor_metadata") and not calls_to(fl, "_build_sweep_payload")
    R.check(ok, r, BUILDER, "build_inspection_payload", "enriched['preprocessor_metadata'] = inspection.nodes[i].preprocessor_metadata", "the inspection path enriches the canonical nodes with something other than the processor's full preprocessor metadata (e.g. a sanitised view without element_ref): its semantic id ignores part of the sweep definition and differs from the run-time one", bip.lineno)
    bpi = nfunc(repo, BUILDER, "build_pipeline_inspection")
    st2 = [n for n in ast.walk(bpi) if isinstance(n, ast.Assign) and any(isinstance(t, ast.Attribute) and t.attr == "preprocessor_metadata" for t in n.targets)]
    kw2 = [k.value for c in ast.walk(bpi) if isinstance(c, ast.Call) for k in c.keywords if k.arg == "preprocessor_metadata"]
    vals2 = [s.value for s in st2] + kw2
    ok = bool(vals2) and all(reads_key(flow(bpi, v), "preprocessor") for v in vals2)
    R.check(ok, r, BUILDER, "build_pipeline_inspection", "node_inspection.preprocessor_metadata = processor metadata['preprocessor']", "inspection records a different preprocessor metadata than the processor publishes", bpi.lineno)
    ex = repo.func(ORCH, "SemantivaOrchestrator.execute")
    exn = nfunc(repo, ORCH, "SemantivaOrchestrator.execute")
    site3 = (hashed_node_fields(exn) or {}).get("preprocessor_metadata")
    st3 = _values_under_key(site3, "preprocessor_metadata") if site3 is not None else []
    ex = exn if st3 else ex
    ok = bool(st3) and all(reads_key(flow(ex, v), "preprocessor") for v in st3)
    R.check(ok, r, ORCH, "SemantivaOrchestrator.execute", "canonical node enriched with processor metadata['preprocessor']", "the run-time path enriches canonical nodes with something other than the processor's preprocessor metadata", ex.lineno)
    # the metadata is read fresh from each processor class (not memoised under a key generated classes share)
    gm = [c for c in ast.walk(ex) if isinstance(c, ast.Call) and call_attr(c) == "get_metadata"]
    cached = [n for n in ast.walk(ex) if isinstance(n, ast.Assign) and any(isinstance(t, ast.Subscript) and not isinstance(t.slice, ast.Constant) for t in n.targets) and any(isinstance(c, ast.Call) and call_attr(c) == "get_metadata" for c in ast.walk(n.value))]
    cached += [c for c in ast.walk(ex) if isinstance(c, ast.Call) and call_attr(c) == "setdefault" and len(c.args) == 2 and not isinstance(c.args[0], ast.Constant) and any(isinstance(x, ast.Call) and call_attr(x) == "get_metadata" for x in ast.walk(c.args[1]))]
    R.check(bool(gm) and not cached, r, ORCH, "SemantivaOrchestrator.execute", "processor metadata read per node, not memoised by name", "processor metadata is memoised under a key (e.g. module.qualname) that generated sweep classes share: a second sweep gets the first one's definition", ex.lineno)


# ---------------------------------------------------------------------------------------------------------
# D3
# ---------------------------------------------------------------------------------------------------------

def _enumerate_index(fn: ast.AST, name: str) -> Optional[ast.Call]:
    """The `enumerate(..)` call whose running index the local *name* is (its only binding), else None."""
    binders = []
    for n in ast.walk(fn):
        if isinstance(n, (ast.For, ast.comprehension)):
            if any(isinstance(x, ast.Name) and x.id == name for x in ast.walk(n.target)):
                binders.append(n)
    others = [v for v in name_values(fn, name)]
    if len(binders) != 1 or len(others) != 1:
        return None
    b = binders[0]
    it = b.iter
    if isinstance(it, ast.Call) and call_attr(it) == "enumerate" and isinstance(b.target, ast.Tuple) and b.target.elts and isinstance(b.target.elts[0], ast.Name) and b.target.elts[0].id == name:
        return it
    return None


def _sig_alternatives(fn: ast.AST, g: CFG, e: ast.AST, _seen: Optional[Set[str]] = None) -> List[Tuple[ast.AST, Dict[str, List[ast.AST]]]]:
    """(alternative mapping expression, {key: values stored into it afterwards}) for a returned expression: split at
    conditional expressions and at the distinct assignments of a returned local; a later `m[k] = v` belongs to the
    assignments of `m` that reach it (reaching definitions, not line order)."""
    _seen = _seen if _seen is not None else set()
    if isinstance(e, ast.IfExp):
        return _sig_alternatives(fn, g, e.body, _seen) + _sig_alternatives(fn, g, e.orelse, _seen)
    if isinstance(e, ast.Name) and e.id not in _seen:
        defs = [n for n in walk_no_nested(fn) if isinstance(n, (ast.Assign, ast.AnnAssign)) and n.value is not None and any(isinstance(t, ast.Name) and t.id == e.id for t in (n.targets if isinstance(n, ast.Assign) else [n.target]))]
        if defs:
            _seen.add(e.id)
            stores = key_stores(fn, e.id)
            out: List[Tuple[ast.AST, Dict[str, List[ast.AST]]]] = []
            for d in defs:
                extra: Dict[str, List[ast.AST]] = {}
                for st, k, v in stores:
                    nodes = g.nodes_for(st)
                    if nodes and any(rd.ast is d for rd in reaching_defs(g, e.id, nodes[0])):
                        extra.setdefault(k, []).append(v)
                for alt, ex in _sig_alternatives(fn, g, d.value, _seen):
                    merged = {k: list(v) for k, v in ex.items()}
                    for k, v in extra.items():
                        merged.setdefault(k, []).extend(v)
                    out.append((alt, merged))
            return out
    return [(e, {})]


def positional_and_domains(repo: Repo, R: Report) -> None:
    r = R.rule("C05-D3-position-and-domain", "declaration_index is the enumerate() index of the node in the spec; the range signature covers every RangeSpec field; the sequence signature covers count and a digest of all values", 9)
    bcs = NF(repo, GRAPH, "build_canonical_spec")
    _uu, objs = _hashed_node_objects(bcs)
    g = CFG(bcs, may_raise=lambda p: set())
    ok = bool(objs)
    for o in objs:
        v = _effective_value(bcs, g, o, "declaration_index", _enclosing_stmt(bcs, o), 0, repo, GRAPH)
        en = _enumerate_index(bcs, v.id) if isinstance(v, ast.Name) else None
        # any constant start keeps the indices pairwise distinct
        start = (en.args[1] if len(en.args) > 1 else kwarg(en, "start")) if en is not None else None
        ok = ok and en is not None and len(en.args) >= 1 and (start is None or (isinstance(start, ast.Constant) and isinstance(start.value, int)))
        # ... and the loop that computes the uuid is that enumeration
        if ok:
            loop = next((n for n in ast.walk(bcs) if isinstance(n, (ast.For, ast.comprehension)) and n.iter is en), None)
            inside = isinstance(loop, ast.For) and any(x is o for x in ast.walk(loop)) or (isinstance(loop, ast.comprehension) and any(x is o for x in ast.walk(parent(loop))))
            ok = ok and bool(inside)
    R.check(ok, r, GRAPH, "build_canonical_spec", "_canonical_node(cfg, <enumerate index>, ...)", "identical nodes at different positions can receive the same uuid", bcs.lineno)
    cn = NF(repo, GRAPH, "_canonical_node")
    keys_cn = returned_mapping(repo, GRAPH, cn)
    dv = keys_cn.get("declaration_index") or []
    cn_params = set(_params_of(cn))
    ok = bool(dv) and all(isinstance(v, ast.Name) and v.id in cn_params and not assigned_value(cn, v.id) for v in dv)
    R.check(ok, r, GRAPH, "_canonical_node", "'declaration_index': declaration_index", "the positional discriminator is not the parameter", cn.lineno)
    # RangeSpec fields vs signature
    rs = repo.cls(SWEEP, "RangeSpec")
    fields = [st.target.id for st in rs.body if isinstance(st, ast.AnnAssign) and isinstance(st.target, ast.Name)]
    vds = NF(repo, SEM, "variable_domain_signature")
    sp = _params_of(vds)[0]
    sigs: Dict[str, Dict[str, ast.AST]] = {}
    gv = CFG(vds, may_raise=lambda p: set())
    for ret in walk_no_nested(vds):
        if isinstance(ret, ast.Return) and ret.value is not None:
            for alt, extra in _sig_alternatives(vds, gv, ret.value):
                items = mapping_items(repo, SEM, vds, alt) if not isinstance(alt, ast.Name) else {}
                for k, v in extra.items():
                    items.setdefault(k, []).extend(v)
                for kv in items.get("kind", []):
                    if isinstance(kv, ast.Constant) and isinstance(kv.value, str):
                        sigs.setdefault(kv.value, first_items(items))
    range_ret, seq_ret, fc_ret = sigs.get("range"), sigs.get("sequence"), sigs.get("from_context")
    if range_ret is None or seq_ret is None:
        raise AnalysisError("variable_domain_signature: range / sequence signatures not found")
    for f in fields:
        v = range_ret.get(f)
        R.check(v is not None and reads_attr(flow(vds, v), f, sp), r, SEM, "variable_domain_signature", f"range signature covers RangeSpec.{f}", f"RangeSpec.{f} is not part of the domain signature: changing it changes no id", vds.lineno)

    def all_values(e: Optional[ast.AST]) -> bool:
        """*e* is computed from the complete `spec.values` (no slice / index / filter on the way)."""
        fl = flow(vds, e)
        return reads_attr(fl, "values", sp) and not any(isinstance(x, ast.Subscript) for x in fl) and not any(isinstance(x, ast.comprehension) and x.ifs for x in fl)

    cnts = alternatives(vds, seq_ret["count"]) if seq_ret.get("count") is not None else []
    ok = bool(cnts) and all(isinstance(c, ast.Call) and call_attr(c) == "len" and len(c.args) == 1 and all_values(c.args[0]) for c in cnts)
    R.check(ok, r, SEM, "variable_domain_signature", "sequence signature: count = len(values)", "the number of values is not part of the signature", vds.lineno)
    # digests computed here or in a function of this module that is handed the values
    n_dig = 0
    ok = True
    for k, v in seq_ret.items():
        if k == "kind":
            continue
        fl = flow(vds, v)
        for c in calls_to(fl, *HASH_FUNCS):
            n_dig += 1
            ok = ok and bool(c.args) and all_values(c.args[0])
        for c in fl:
            hit = _local_callee(repo, SEM, vds, c) if isinstance(c, ast.Call) and call_attr(c) not in HASH_FUNCS else None
            if hit is None:
                continue
            callee = NF(repo, SEM, hit[0])
            cps_ = _params_of(callee)
            for rv in [x.value for x in walk_no_nested(callee) if isinstance(x, ast.Return) and x.value is not None]:
                for hc in calls_to(flow(callee, rv), *HASH_FUNCS):
                    n_dig += 1
                    hfl = flow(callee, hc.args[0]) if hc.args else []
                    fed = [i for i, pn in enumerate(cps_) if any(isinstance(x, ast.Name) and x.id == pn for x in hfl)]
                    partial = any(isinstance(x, ast.Subscript) for x in hfl) or any(isinstance(x, ast.comprehension) and x.ifs for x in hfl)
                    ok = ok and bool(fed) and not partial and all(i < len(c.args) and all_values(c.args[i]) for i in fed)
    ok = ok and n_dig > 0
    R.check(ok, r, SEM, "variable_domain_signature", "sequence signature: digest over all values", "the sequence digest covers only a part of the values (e.g. head/tail): sequences differing in the middle share a signature", vds.lineno)
    R.check(fc_ret is not None and "key" in fc_ret and reads_attr(flow(vds, fc_ret["key"]), "key", sp), r, SEM, "variable_domain_signature", "from_context signature carries the key", "the context key of a from_context variable is not part of the signature", vds.lineno)


def run(repo: Repo, R: Report) -> None:
    R.assume(
        "sha256 / uuid5 are injective for practical purposes and json.dumps(sort_keys=True) is injective on JSON values",
        "distinct processor classes have distinct module.qualname (except classes generated inside factory functions, handled by D2)",
    )
    R.undecided("hash collisions; equality of expression *values* (C12)")
    field_coverage(repo, R)
    params_lossless(repo, R)
    sweep_metadata(repo, R)
    positional_and_domains(repo, R)
    # an expression signature that merges expressions of different value makes two different sweeps share an id:
    # the discrimination half of C12 (only +/* chains of one operator are flattened; every other position is
    # kept in order) is a necessary condition of C05 as well
    from . import c12

    R.rule_prefix = "C05-D4/"
    try:
        c12.run(repo, R)
    finally:
        R.rule_prefix = ""
    # an id that is looked up in a memo / shared table filled by an earlier call is a function of the *earlier*
    # configuration: whatever the memo key does not cover (a sweep node's uuid does not cover its sweep definition)
    # stops changing the id.  The C04 rule over the identity slice, re-applied.
    from . import c04_rest

    R.rule_prefix = "C05-D5/"
    try:
        c04_rest.no_process_state(repo, R, c04_rest.identity_slice(repo))
    finally:
        R.rule_prefix = ""
