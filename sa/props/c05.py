"""C05 - identities discriminate: a change of meaning changes semantic and config ID.

Sensitivity to a field is a reachability question: does the field flow into the hashed bytes?
D1 field-coverage tables of every id, D2 generated processors have no identity in processor_ref,
so the sweep definition must reach the pipeline ids through the preprocessor metadata,
D3 positional discriminator and complete domain signatures.

Locals are identified by role; helper functions of the same module are followed one level.
"""
from __future__ import annotations

import ast
from typing import Dict, List, Optional, Set, Tuple

from ..engine import (
    AnalysisError,
    FuncNode,
    Module,
    Repo,
    ancestors,
    assigned_value,
    call_attr,
    call_name,
    calls_in,
    dict_items_built,
    dotted_name,
    kwarg,
    norm,
    qualname_of,
    returned_values,
    slice_text,
    stmt_of,
    walk_no_nested,
)
from ..pat import find, find1, match, name_of
from ..normal import nfunc
from ..report import Report

GRAPH = "semantiva/pipeline/graph_builder.py"
SEM = "semantiva/metadata/semantic_id.py"
SWEEP = "semantiva/data_processors/parametric_sweep_factory.py"
BUILDER = "semantiva/inspection/builder.py"
ORCH = "semantiva/execution/orchestrator/orchestrator.py"
CANON_KEYS = {"role", "processor_ref", "params", "ports", "declaration_index", "declaration_subindex"}
SWEEP_META_KEYS = {"element_ref", "param_expressions", "variables", "mode", "broadcast", "collection", "dependencies"}
UI_ONLY_ALLOWED = {"preprocessor_view"}
CANON_DROP_ALLOWED = {"expr"}


def _u(e: Optional[ast.AST]) -> str:
    return ast.unparse(e) if e is not None else ""


def dict_literal_keys(d: ast.AST) -> Set[str]:
    return {k.value for k in d.keys if isinstance(k, ast.Constant)} if isinstance(d, ast.Dict) else set()


def mapping_keys_of(mod: Module, fn: ast.AST, expr: ast.AST, depth: int = 0) -> Dict[str, ast.AST]:
    """Constant keys of the mapping *expr* evaluates to, following locals, subscript stores on the
    local, and one level of same-module helper functions."""
    out: Dict[str, ast.AST] = {}
    if isinstance(expr, (ast.Dict, ast.IfExp)):
        out.update(dict_items_built(fn, expr))
    if isinstance(expr, ast.Name):
        for v in assigned_value(fn, expr.id):
            out.update(mapping_keys_of(mod, fn, v, depth))
        for n in ast.walk(fn):
            if isinstance(n, ast.Assign):
                for t in n.targets:
                    if isinstance(t, ast.Subscript) and dotted_name(t.value) == expr.id and isinstance(t.slice, ast.Constant):
                        out.setdefault(t.slice.value, n.value)
    if isinstance(expr, ast.Call) and depth < 2:
        callee = mod.defs.get(call_attr(expr) or "")
        if isinstance(callee, FuncNode):
            for rv in returned_values(callee):
                out.update(mapping_keys_of(mod, callee, rv, depth + 1))
            for r in walk_no_nested(callee):
                if isinstance(r, ast.Return) and isinstance(r.value, ast.Name):
                    out.update(mapping_keys_of(mod, callee, r.value, depth + 1))
    return out


def field_coverage(repo: Repo, R: Report) -> None:
    r = R.rule("C05-D1-field-coverage", "every identity-bearing field reaches the bytes that are hashed: node uuid <- whole canonical node (role, processor_ref, full-depth params, ports, declaration index); node semantic id <- whole sweep metadata minus exactly the UI-only keys; pipeline semantic id <- node uuid and node semantic id of every node in order; config id <- every (uuid, semantic id) pair; pipeline id <- whole canonical graph", 16)
    gmod = repo.module(GRAPH)
    cn = repo.func(GRAPH, "_canonical_node")
    keys: Dict[str, ast.AST] = {}
    for rv in returned_values(cn):
        keys.update(mapping_keys_of(gmod, cn, rv))
    for r_ in walk_no_nested(cn):
        if isinstance(r_, ast.Return) and isinstance(r_.value, ast.Name):
            keys.update(mapping_keys_of(gmod, cn, r_.value))
    for k in sorted(CANON_KEYS):
        R.check(k in keys, r, GRAPH, "_canonical_node", f"canonical node carries {k!r}", f"field {k!r} no longer enters the canonical node: two configurations differing only there get the same node uuid", cn.lineno)
    bcs = repo.func(GRAPH, "build_canonical_spec")
    uu = [c for c in ast.walk(bcs) if isinstance(c, ast.Call) and call_name(c) == "uuid.uuid5"]
    ok = False
    canon_name = None
    if len(uu) == 1 and len(uu[0].args) > 1:
        txt = slice_text(bcs, uu[0].args[1], 3)
        dumps = [c for c in ast.walk(bcs) if isinstance(c, ast.Call) and call_name(c) == "json.dumps"]
        for d in dumps:
            if _u(d) in txt and d.args and isinstance(d.args[0], ast.Name):
                cdefs = assigned_value(bcs, d.args[0].id)
                if cdefs and all(isinstance(v, ast.Call) and call_attr(v) == "_canonical_node" for v in cdefs):
                    ok = True
                    canon_name = d.args[0].id
    R.check(ok, r, GRAPH, "build_canonical_spec", "node_uuid = uuid5(ns, json.dumps(<whole canonical node>))", "the node uuid is not derived from the complete canonical node", bcs.lineno)
    pstores = [n for n in ast.walk(bcs) if isinstance(n, ast.Assign) and any(isinstance(t, ast.Subscript) and dotted_name(t.value) == canon_name and isinstance(t.slice, ast.Constant) and t.slice.value == "params" for t in n.targets)]
    ok = len(pstores) == 1 and isinstance(pstores[0].value, ast.Call) and call_attr(pstores[0].value) == "descriptor_to_json" and bool(uu) and pstores[0].lineno < uu[0].lineno
    R.check(ok, r, GRAPH, "build_canonical_spec", "canon['params'] = descriptor_to_json(params) before hashing", "the effective parameter map (full depth, as given) is not what gets hashed into the node uuid", bcs.lineno)
    # pipeline id
    cpi = repo.func(GRAPH, "compute_pipeline_id")
    d = [c for c in ast.walk(cpi) if isinstance(c, ast.Call) and call_name(c) == "json.dumps"]
    ok = len(d) == 1 and dotted_name(d[0].args[0]) == cpi.args.args[0].arg
    R.check(ok, r, GRAPH, "compute_pipeline_id", "json.dumps(<whole canonical spec>)", "pipeline id hashes only a part of the canonical graph", cpi.lineno)
    # node semantic id: only UI-only keys are dropped
    sem = repo.module(SEM)
    ui = next((st for st in sem.tree.body if isinstance(st, ast.Assign) and dotted_name(st.targets[0]) == "_UI_ONLY_KEYS"), None)
    ui_keys = {e.value for e in ui.value.elts if isinstance(e, ast.Constant)} if ui is not None and isinstance(ui.value, (ast.Set, ast.Tuple, ast.List)) else None
    R.check(ui_keys is not None and ui_keys <= UI_ONLY_ALLOWED, r, SEM, "<module>", f"_UI_ONLY_KEYS = {sorted(ui_keys or [])}", f"keys {sorted((ui_keys or set()) - UI_ONLY_ALLOWED)} are stripped before hashing the node semantic id: differences there no longer change any id", ui.lineno if ui is not None else 0)
    cns = repo.func(SEM, "compute_node_semantic_id")
    dropped: Set[str] = set()
    key_vars: Set[str] = set()
    for g in ast.walk(cns):
        if isinstance(g, (ast.comprehension, ast.For)):
            it, tg = g.iter, g.target
            if isinstance(it, ast.Call) and call_attr(it) == "items" and isinstance(tg, ast.Tuple) and tg.elts and isinstance(tg.elts[0], ast.Name):
                key_vars.add(tg.elts[0].id)
            elif isinstance(tg, ast.Name) and (isinstance(it, ast.Name) or (isinstance(it, ast.Call) and call_attr(it) == "keys")):
                key_vars.add(tg.id)
    for c in ast.walk(cns):
        if isinstance(c, ast.Compare) and len(c.ops) == 1 and isinstance(c.ops[0], (ast.NotEq, ast.NotIn, ast.Eq, ast.In)) and isinstance(c.left, ast.Name) and c.left.id in key_vars:
            for x in ast.walk(c.comparators[0]):
                if isinstance(x, ast.Constant) and isinstance(x.value, str):
                    dropped.add(x.value)
    R.check(dropped <= CANON_DROP_ALLOWED, r, SEM, "compute_node_semantic_id", f"keys dropped by canonicalisation: {sorted(dropped)}", f"{sorted(dropped - CANON_DROP_ALLOWED)} are dropped before hashing", cns.lineno)
    # a key may be dropped by *position* only: a filter on the key's spelling inside a function that recurses over
    # the whole metadata removes user-chosen names (a sweep variable or parameter that happens to be called like the
    # dropped field) at every depth, and with them their domains / expressions
    helpers: List[Tuple[str, ast.AST]] = [(qualname_of(n), n) for n in ast.walk(cns) if isinstance(n, FuncNode) and n is not cns]
    for c in ast.walk(cns):
        if isinstance(c, ast.Call) and isinstance(c.func, ast.Name):
            t = sem.defs.get(c.func.id)
            if isinstance(t, FuncNode) and all(t is not h for _q, h in helpers):
                helpers.append((c.func.id, t))
    n_filters = 0
    for qn, h0 in helpers:
        h = nfunc(repo, SEM, qn, copyprop="all", inline=False)
        params = [a.arg for a in h.args.posonlyargs + h.args.args + h.args.kwonlyargs]
        rec_calls = [c for c in ast.walk(h) if isinstance(c, ast.Call) and isinstance(c.func, ast.Name) and c.func.id == h.name]
        # parameters whose value changes along the recursion (a depth / path argument)
        varying: Set[str] = set()
        for c in rec_calls:
            bound = dict(zip(params, c.args))
            bound.update({k.arg: k.value for k in c.keywords if k.arg})
            for pn, v in bound.items():
                if not (isinstance(v, ast.Name) and v.id == pn) and pn != params[0]:
                    varying.add(pn)
        tests: List[ast.AST] = []
        for n in ast.walk(h):
            if isinstance(n, ast.comprehension):
                tests.extend(n.ifs)
            elif isinstance(n, (ast.If, ast.IfExp)):
                tests.append(n.test)
        for t in tests:
            cmp_consts = [x for x in ast.walk(t) if isinstance(x, ast.Compare) and any(isinstance(y, ast.Constant) and isinstance(y.value, str) for y in ast.walk(x)) or (isinstance(x, ast.Compare) and any(isinstance(y, ast.Name) and y.id in ("_UI_ONLY_KEYS",) for y in ast.walk(x)))]
            if not cmp_consts:
                continue
            n_filters += 1
            names = {x.id for x in ast.walk(t) if isinstance(x, ast.Name)}
            positional = not rec_calls or bool(names & varying)
            R.check(positional, r, SEM, qn, f"key filter `{_u(t)[:80]}`", "a key is dropped by its spelling at every depth of the metadata (recursive traversal without a position test): a sweep variable or parameter with that name - and its domain / expression - never reaches the node semantic id", t.lineno)
    if n_filters == 0:
        raise AnalysisError("compute_node_semantic_id: no key filter found (UI-only / raw-expression stripping vanished)")
    hd = [c for c in ast.walk(cns) if isinstance(c, ast.Call) and call_name(c) == "json.dumps" and not any(isinstance(a, FuncNode) and a is not cns for a in ancestors(c))]
    inner = [n.name for n in ast.walk(cns) if isinstance(n, FuncNode) and n is not cns]
    ok = False
    if hd:
        txt = slice_text(cns, hd[0].args[0], 5)
        ok = "_strip_ui_only(" in txt and cns.args.args[0].arg in txt and any(f"{nm}(" in txt for nm in inner)
    R.check(ok, r, SEM, "compute_node_semantic_id", "hash(json.dumps(canonicalise(_strip_ui_only(meta))))", "node semantic id does not hash the whole (UI-stripped) metadata", cns.lineno)
    # pipeline semantic id
    cps = repo.func(SEM, "compute_pipeline_semantic_id")
    param = cps.args.args[0].arg
    lcs = [n for n in ast.walk(cps) if isinstance(n, ast.ListComp) and "nodes" in _u(n.generators[0].iter)]
    loops = [n for n in ast.walk(cps) if isinstance(n, ast.For) and "nodes" in _u(n.iter) and param in _u(n.iter)]
    ok = False
    per_node: Dict[str, ast.AST] = {}
    if lcs:
        lc = lcs[0]
        gen = lc.generators[0]
        ok = not gen.ifs and param in _u(gen.iter) and not any(call_attr(c) in ("sorted", "set", "reversed") for c in ast.walk(gen.iter) if isinstance(c, ast.Call))
        per_node = mapping_keys_of(sem, cps, lc.elt)
    elif loops:
        lp = loops[0]
        ok = not any(isinstance(x, (ast.Continue, ast.Break)) for x in ast.walk(lp)) and not any(call_attr(c) in ("sorted", "set", "reversed") for c in ast.walk(lp.iter) if isinstance(c, ast.Call))
        for c in calls_in(lp):
            if call_attr(c) == "append" and c.args:
                per_node = mapping_keys_of(sem, cps, c.args[0])
    R.check(ok, r, SEM, "compute_pipeline_semantic_id", "per-node list over all canonical nodes, in order, unfiltered", "nodes are filtered / reordered before hashing: number or order of nodes can change without changing the semantic id", cps.lineno)
    R.check("node_uuid" in per_node, r, SEM, "compute_pipeline_semantic_id", "per-node structure contains node_uuid", "node uuid (processor, parameters, position) does not reach the pipeline semantic id", cps.lineno)
    R.check("node_semantic_id" in per_node, r, SEM, "compute_pipeline_semantic_id", "per-node structure contains node_semantic_id", "the sweep definition (wrapped processor, expressions, domains, mode, broadcast, collection) never reaches the pipeline semantic id: generated sweep classes share one processor_ref", cps.lineno)
    nsv = per_node.get("node_semantic_id")
    ok = nsv is not None and any(isinstance(c, ast.Call) and call_attr(c) == "compute_node_semantic_id" and "preprocessor_metadata" in _u(c.args[0]) for c in ast.walk(nsv))
    R.check(ok, r, SEM, "compute_pipeline_semantic_id", "node_semantic_id = compute_node_semantic_id(node['preprocessor_metadata'])", "the rolled-up node semantic id is not computed from the node's preprocessor metadata", cps.lineno)
    pd = [c for c in ast.walk(cps) if isinstance(c, ast.Call) and call_name(c) == "json.dumps"]
    ok = bool(pd) and ("'nodes'" in slice_text(cps, pd[0].args[0], 3))
    R.check(ok, r, SEM, "compute_pipeline_semantic_id", "hash(json.dumps(pipeline_structure))", "the per-node structure is not what gets hashed", cps.lineno)
    # config id
    cpc = repo.func(SEM, "compute_pipeline_config_id")
    hs = [c for c in ast.walk(cpc) if isinstance(c, ast.Call) and call_attr(c) in ("_sha256_json",)]
    ok = False
    if hs and hs[0].args:
        txt = slice_text(cpc, hs[0].args[0], 3)
        ok = "sorted(" in txt and cpc.args.args[0].arg in txt and "[:" not in txt
    R.check(ok, r, SEM, "compute_pipeline_config_id", "hash of all (uuid, semantic id) pairs", "config id does not cover every pair", cpc.lineno)


def _values_under_key(fn: ast.AST, key: str) -> List[ast.AST]:
    """Every expression written under the constant mapping key *key* in *fn*: `m[key] = v`, `{..., key: v}`
    (also with `**` spreads), `dict(m, key=v)`, `m.update({key: v})` / `m.update(key=v)`, `m.setdefault(key, v)`."""
    out: List[ast.AST] = []
    for n in ast.walk(fn):
        if isinstance(n, ast.Assign):
            if any(isinstance(t, ast.Subscript) and isinstance(t.slice, ast.Constant) and t.slice.value == key for t in n.targets):
                out.append(n.value)
        elif isinstance(n, ast.Dict):
            for k, v in zip(n.keys, n.values):
                if isinstance(k, ast.Constant) and k.value == key:
                    out.append(v)
        elif isinstance(n, ast.Call):
            if call_attr(n) in ("dict", "update"):
                out.extend(k.value for k in n.keywords if k.arg == key)
            if call_attr(n) == "setdefault" and len(n.args) == 2 and isinstance(n.args[0], ast.Constant) and n.args[0].value == key:
                out.append(n.args[1])
    return out


def sweep_metadata(repo: Repo, R: Report) -> None:
    r = R.rule("C05-D2-sweep-definition-in-metadata", "generated sweep classes carry no identity in processor_ref; the whole sweep definition (wrapped processor, expression signatures, variable domains, mode, broadcast, collection, dependencies) is in the preprocessor metadata, and the same metadata object enriches the canonical nodes on the inspection and the run-time path; a string processor reference is hashed as written", 12)
    smod = repo.module(SWEEP)
    create = repo.func(SWEEP, "ParametricSweepFactory.create")
    pm = next((n for n in ast.walk(create) if isinstance(n, FuncNode) and n.name == "_preprocessor_metadata"), None)
    if pm is None:
        raise AnalysisError("_preprocessor_metadata not found")
    keys: Dict[str, ast.AST] = {}
    for rv in returned_values(pm):
        keys.update(mapping_keys_of(smod, pm, rv))
    sources = {
        "element_ref": "_element", "param_expressions": "_expr_src", "variables": "_vars", "mode": "_mode", "broadcast": "_broadcast", "collection": "_collection_output", "dependencies": "_required_external",
    }
    for k in sorted(SWEEP_META_KEYS):
        v = keys.get(k)
        txt = slice_text(pm, v, 3) if v is not None else ""
        R.check(v is not None and sources[k] in txt, r, SWEEP, "ParametricSweepFactory.create._preprocessor_metadata", f"metadata[{k!r}] <- cls.{sources[k]}", f"the sweep's {k} does not reach the metadata that is hashed: changing it changes no id", pm.lineno)
    pe_txt = slice_text(pm, keys.get("param_expressions"), 3)
    R.check("normalize_expression_sig_v1(" in pe_txt, r, SWEEP, "ParametricSweepFactory.create._preprocessor_metadata", "param_expressions[*].sig = normalize_expression_sig_v1(source)", "expression signatures are not computed from the expression source", pm.lineno)
    vm_txt = slice_text(pm, keys.get("variables"), 3)
    R.check("variable_domain_signature(" in vm_txt, r, SWEEP, "ParametricSweepFactory.create._preprocessor_metadata", "variables[*] = variable_domain_signature(spec)", "variable domains are not summarised by the domain signature", pm.lineno)
    n_hooks = sum(1 for n in ast.walk(create) if isinstance(n, ast.Assign) and any(isinstance(t, ast.Subscript) and isinstance(t.slice, ast.Constant) and t.slice.value == "preprocessor" for t in n.targets) and isinstance(n.value, ast.Call) and call_attr(n.value) == "_preprocessor_metadata")
    R.check(n_hooks == 3, r, SWEEP, "ParametricSweepFactory.create", "meta['preprocessor'] = _preprocessor_metadata(cls) in all three variants", f"only {n_hooks} of the 3 generated sweep variants publish their definition", create.lineno)
    # string processor refs are hashed as written
    gmod = repo.module(GRAPH)
    cn = repo.func(GRAPH, "_canonical_node")
    keys_cn: Dict[str, ast.AST] = {}
    for rv in returned_values(cn):
        keys_cn.update(mapping_keys_of(gmod, cn, rv))
    pv = keys_cn.get("processor_ref")
    pname = pv.id if isinstance(pv, ast.Name) else None
    defs = [n for n in walk_no_nested(cn) if isinstance(n, ast.Assign) and any(isinstance(t, ast.Name) and t.id == pname for t in n.targets)]
    ok = bool(defs)
    for d in defs:
        if isinstance(d.value, ast.Call) and call_attr(d.value) == "get" and dotted_name(d.value.func.value) == cn.args.args[0].arg:
            continue
        guards = [a for a in ancestors(d) if isinstance(a, ast.If)]
        is_type_branch = any("isinstance" in _u(g.test) and "type" in _u(g.test) and "str" not in _u(g.test) for g in guards)
        if is_type_branch and isinstance(d.value, ast.JoinedStr) and "__qualname__" in _u(d.value):
            continue
        ok = False
        R.violation(r, GRAPH, "_canonical_node", "processor_ref rewritten before hashing", "a string processor reference is rewritten before hashing (e.g. resolved to a generated class whose name drops parts of the shorthand): `template:` / `rename:` / `delete:` nodes that differ in meaning get the same node uuid", d.lineno)
    if ok:
        R.ok(r, GRAPH, "_canonical_node", f"processor_ref: string kept as written, class -> module.qualname ({len(defs)} defs)", "", cn.lineno)
    # same metadata object on both paths
    bip = nfunc(repo, BUILDER, "build_inspection_payload", keep=("_build_sweep_payload",))
    insp_p = next((a.arg for a in bip.args.kwonlyargs + bip.args.args if a.arg == "inspection"), "inspection")
    # only what is written into the node mappings handed to compute_pipeline_semantic_id counts (the display payload
    # legitimately carries the sanitised view); found by role through c04_rest.hashed_node_fields
    from .c04_rest import hashed_node_fields

    site = (hashed_node_fields(bip) or {}).get("preprocessor_metadata")
    stores = _values_under_key(site, "preprocessor_metadata") if site is not None else []
    ok = bool(stores)
    for v in stores:
        txt = slice_text(bip, v, 3)
        ok = ok and f"{insp_p}.nodes" in txt and ".preprocessor_metadata" in txt and "_build_sweep_payload" not in txt
    R.check(ok, r, BUILDER, "build_inspection_payload", "enriched['preprocessor_metadata'] = inspection.nodes[i].preprocessor_metadata", "the inspection path enriches the canonical nodes with something other than the processor's full preprocessor metadata (e.g. a sanitised view without element_ref): its semantic id ignores part of the sweep definition and differs from the run-time one", bip.lineno)
    bpi = repo.func(BUILDER, "build_pipeline_inspection")
    st2 = [n for n in ast.walk(bpi) if isinstance(n, ast.Assign) and any(isinstance(t, ast.Attribute) and t.attr == "preprocessor_metadata" for t in n.targets)]
    ok = bool(st2) and all(".get('preprocessor')" in slice_text(bpi, s.value, 3) for s in st2)
    R.check(ok, r, BUILDER, "build_pipeline_inspection", "node_inspection.preprocessor_metadata = processor metadata['preprocessor']", "inspection records a different preprocessor metadata than the processor publishes", bpi.lineno)
    ex = repo.func(ORCH, "SemantivaOrchestrator.execute")
    exn = nfunc(repo, ORCH, "SemantivaOrchestrator.execute")
    site3 = (hashed_node_fields(exn) or {}).get("preprocessor_metadata")
    st3 = _values_under_key(site3, "preprocessor_metadata") if site3 is not None else []
    ex = exn if st3 else ex
    ok = bool(st3) and all(".get('preprocessor')" in slice_text(ex, v, 3) for v in st3)
    R.check(ok, r, ORCH, "SemantivaOrchestrator.execute", "canonical node enriched with processor metadata['preprocessor']", "the run-time path enriches canonical nodes with something other than the processor's preprocessor metadata", ex.lineno)
    # the metadata is read fresh from each processor class (not memoised under a key generated classes share)
    gm = [c for c in ast.walk(ex) if isinstance(c, ast.Call) and call_attr(c) == "get_metadata"]
    cached = [n for n in ast.walk(ex) if isinstance(n, ast.Assign) and any(isinstance(t, ast.Subscript) and not isinstance(t.slice, ast.Constant) for t in n.targets) and any(isinstance(c, ast.Call) and call_attr(c) == "get_metadata" for c in ast.walk(n.value))]
    R.check(bool(gm) and not cached, r, ORCH, "SemantivaOrchestrator.execute", "processor metadata read per node, not memoised by name", "processor metadata is memoised under a key (e.g. module.qualname) that generated sweep classes share: a second sweep gets the first one's definition", ex.lineno)


def positional_and_domains(repo: Repo, R: Report) -> None:
    r = R.rule("C05-D3-position-and-domain", "declaration_index is the enumerate() index of the node in the spec; the range signature covers every RangeSpec field; the sequence signature covers count and a digest of all values", 9)
    gmod = repo.module(GRAPH)
    bcs = repo.func(GRAPH, "build_canonical_spec")
    loops = [n for n in walk_no_nested(bcs) if isinstance(n, ast.For) and isinstance(n.iter, ast.Call) and call_attr(n.iter) == "enumerate"]
    ok = False
    if loops:
        idx = loops[0].target.elts[0].id if isinstance(loops[0].target, ast.Tuple) else None
        c = next((c for c in calls_in(loops[0]) if call_attr(c) == "_canonical_node"), None)
        a1 = (c.args[1] if c is not None and len(c.args) >= 2 else kwarg(c, "declaration_index") if c is not None else None)
        ok = c is not None and dotted_name(a1) == idx and not loops[0].iter.keywords and len(loops[0].iter.args) == 1
    R.check(ok, r, GRAPH, "build_canonical_spec", "_canonical_node(cfg, <enumerate index>, ...)", "identical nodes at different positions can receive the same uuid", bcs.lineno)
    cn = repo.func(GRAPH, "_canonical_node")
    keys_cn: Dict[str, ast.AST] = {}
    for rv in returned_values(cn):
        keys_cn.update(mapping_keys_of(gmod, cn, rv))
    R.check(dotted_name(keys_cn.get("declaration_index")) == "declaration_index", r, GRAPH, "_canonical_node", "'declaration_index': declaration_index", "the positional discriminator is not the parameter", cn.lineno)
    # RangeSpec fields vs signature
    rs = repo.cls(SWEEP, "RangeSpec")
    fields = [st.target.id for st in rs.body if isinstance(st, ast.AnnAssign) and isinstance(st.target, ast.Name)]
    vds = repo.func(SEM, "variable_domain_signature")
    sp = vds.args.args[0].arg
    range_ret = seq_ret = fc_ret = None
    for n in ast.walk(vds):
        if isinstance(n, ast.Dict):
            kinds = dict(zip([k.value for k in n.keys if isinstance(k, ast.Constant)], n.values))
            kv = kinds.get("kind")
            if isinstance(kv, ast.Constant):
                if kv.value == "range":
                    range_ret = kinds
                elif kv.value == "sequence":
                    seq_ret = kinds
                elif kv.value == "from_context":
                    fc_ret = kinds
    if range_ret is None or seq_ret is None:
        raise AnalysisError("variable_domain_signature: range / sequence signatures not found")
    for f in fields:
        v = range_ret.get(f)
        R.check(v is not None and (f"'{f}'" in _u(v) or f"{sp}.{f}" in _u(v)), r, SEM, "variable_domain_signature", f"range signature covers RangeSpec.{f}", f"RangeSpec.{f} is not part of the domain signature: changing it changes no id", vds.lineno)
    vals_var = next((t.id for n in walk_no_nested(vds) if isinstance(n, ast.Assign) and match(f"list({sp}.values)", n.value) for t in n.targets if isinstance(t, ast.Name)), None)
    cnt = seq_ret.get("count")
    R.check(cnt is not None and vals_var is not None and _u(cnt) == f"len({vals_var})", r, SEM, "variable_domain_signature", "sequence signature: count = len(values)", "the number of values is not part of the signature", vds.lineno)
    sample_txt = slice_text(vds, seq_ret.get("sample"), 1)
    dig_calls = [c for c in ast.walk(vds) if isinstance(c, ast.Call) and (call_attr(c) == "_sha256_json" or call_name(c) == "hashlib.sha256")]
    ok = vals_var is not None and bool(dig_calls)
    for c in dig_calls:
        a = c.args[0] if c.args else None
        names = {x.id for x in ast.walk(a) if isinstance(x, ast.Name)} if a is not None else set()
        ok = ok and vals_var in names and not any(isinstance(s, ast.Subscript) for s in ast.walk(a))
    digest_var = next((t.id for n in ast.walk(vds) if isinstance(n, ast.Assign) and n.value in dig_calls or (isinstance(n, ast.Assign) and any(c in list(ast.walk(n.value)) for c in dig_calls)) for t in n.targets if isinstance(t, ast.Name)), None)
    ok = ok and digest_var is not None and digest_var in sample_txt.split(" ; ")[0]
    R.check(ok, r, SEM, "variable_domain_signature", "sequence signature: digest over all values", "the sequence digest covers only a part of the values (e.g. head/tail): sequences differing in the middle share a signature", vds.lineno)
    R.check(fc_ret is not None and "key" in fc_ret, r, SEM, "variable_domain_signature", "from_context signature carries the key", "the context key of a from_context variable is not part of the signature", vds.lineno)


def run(repo: Repo, R: Report) -> None:
    R.assume(
        "sha256 / uuid5 are injective for practical purposes and json.dumps(sort_keys=True) is injective on JSON values",
        "distinct processor classes have distinct module.qualname (except classes generated inside factory functions, handled by D2)",
    )
    R.undecided("hash collisions; equality of expression *values* (C12)")
    field_coverage(repo, R)
    sweep_metadata(repo, R)
    positional_and_domains(repo, R)
    # an expression signature that merges expressions of different value makes two different sweeps share an id:
    # the discrimination half of C12 (only +/* chains of one operator are flattened; every other position is
    # kept in order) is a necessary condition of C05 as well
    from . import c12

    R.rule_prefix = "C05-D4/"
    try:
        c12.run(repo, R)
    finally:
        R.rule_prefix = ""
