"""C05 - identities discriminate: a change of meaning changes semantic and config ID.

Sensitivity to a field is a reachability question: does the field flow into the hashed bytes?
D1 field-coverage tables of every id, D2 generated processors have no identity in processor_ref,
so the sweep definition must reach the pipeline ids through the preprocessor metadata,
D3 positional discriminator and complete domain signatures.
"""
from __future__ import annotations

import ast
from typing import Dict, List, Optional, Set, Tuple

from ..engine import (
    AnalysisError,
    FuncNode,
    Repo,
    ancestors,
    assigned_value,
    call_attr,
    call_name,
    calls_in,
    dotted_name,
    kwarg,
    norm,
    stmt_of,
    walk_no_nested,
)
from ..report import Report

GRAPH = "semantiva/pipeline/graph_builder.py"
SEM = "semantiva/metadata/semantic_id.py"
SWEEP = "semantiva/data_processors/parametric_sweep_factory.py"
BUILDER = "semantiva/inspection/builder.py"
ORCH = "semantiva/execution/orchestrator/orchestrator.py"
CANON_KEYS = {"role", "processor_ref", "params", "ports", "declaration_index", "declaration_subindex"}
SWEEP_META_KEYS = {"element_ref", "param_expressions", "variables", "mode", "broadcast", "collection", "dependencies"}
UI_ONLY_ALLOWED = {"preprocessor_view"}
CANON_DROP_ALLOWED = {"expr"}


def dict_literal_keys(d: ast.AST) -> Set[str]:
    return {k.value for k in d.keys if isinstance(k, ast.Constant)} if isinstance(d, ast.Dict) else set()


def field_coverage(repo: Repo, R: Report) -> None:
    r = R.rule("C05-D1-field-coverage", "every identity-bearing field reaches the bytes that are hashed: node uuid <- whole canonical node (role, processor_ref, full-depth params, ports, declaration index); node semantic id <- whole sweep metadata minus exactly the UI-only keys; pipeline semantic id <- node uuid and node semantic id of every node in order; config id <- every (uuid, semantic id) pair; pipeline id <- whole canonical graph", 16)
    cn = repo.func(GRAPH, "_canonical_node")
    lits = [n for n in walk_no_nested(cn) if isinstance(n, ast.Dict) and CANON_KEYS & dict_literal_keys(n)]
    keys = dict_literal_keys(lits[0]) if lits else set()
    for k in sorted(CANON_KEYS):
        R.check(k in keys, r, GRAPH, "_canonical_node", f"canonical node carries {k!r}", f"field {k!r} no longer enters the canonical node: two configurations differing only there get the same node uuid", cn.lineno)
    bcs = repo.func(GRAPH, "build_canonical_spec")
    dumps = [c for c in calls_in(bcs) if call_name(c) == "json.dumps"]
    uu = [c for c in calls_in(bcs) if call_name(c) == "uuid.uuid5"]
    ok = False
    if len(dumps) == 1 and len(uu) == 1:
        arg = dumps[0].args[0]
        canon_defs = assigned_value(bcs, arg.id) if isinstance(arg, ast.Name) else []
        ok = isinstance(arg, ast.Name) and bool(canon_defs) and all(isinstance(v, ast.Call) and call_attr(v) == "_canonical_node" for v in canon_defs)
        hashed = uu[0].args[1] if len(uu[0].args) > 1 else None
        hv = assigned_value(bcs, hashed.id) if isinstance(hashed, ast.Name) else []
        ok = ok and bool(hv) and all(v is dumps[0] for v in hv)
    R.check(ok, r, GRAPH, "build_canonical_spec", "node_uuid = uuid5(ns, json.dumps(<whole canonical node>))", "the node uuid is not derived from the complete canonical node", bcs.lineno)
    pstores = [n for n in walk_no_nested(bcs) if isinstance(n, ast.Assign) and any(isinstance(t, ast.Subscript) and isinstance(t.slice, ast.Constant) and t.slice.value == "params" for t in n.targets)]
    ok = len(pstores) == 1 and isinstance(pstores[0].value, ast.Call) and call_attr(pstores[0].value) == "descriptor_to_json" and bool(dumps) and pstores[0].lineno < dumps[0].lineno
    R.check(ok, r, GRAPH, "build_canonical_spec", "canon['params'] = descriptor_to_json(params) before hashing", "the effective parameter map (full depth) is not what gets hashed into the node uuid", bcs.lineno)
    # pipeline id
    cpi = repo.func(GRAPH, "compute_pipeline_id")
    d = [c for c in calls_in(cpi) if call_name(c) == "json.dumps"]
    ok = len(d) == 1 and dotted_name(d[0].args[0]) == cpi.args.args[0].arg
    R.check(ok, r, GRAPH, "compute_pipeline_id", "json.dumps(<whole canonical spec>)", "pipeline id hashes only a part of the canonical graph", cpi.lineno)
    # node semantic id: only UI-only keys are dropped
    sem = repo.module(SEM)
    ui = next((st for st in sem.tree.body if isinstance(st, ast.Assign) and dotted_name(st.targets[0]) == "_UI_ONLY_KEYS"), None)
    ui_keys = {e.value for e in ui.value.elts if isinstance(e, ast.Constant)} if ui is not None and isinstance(ui.value, (ast.Set, ast.Tuple, ast.List)) else None
    R.check(ui_keys is not None and ui_keys <= UI_ONLY_ALLOWED, r, SEM, "<module>", f"_UI_ONLY_KEYS = {sorted(ui_keys or [])}", f"keys {sorted((ui_keys or set()) - UI_ONLY_ALLOWED)} are stripped before hashing the node semantic id: differences there no longer change any id", ui.lineno if ui is not None else 0)
    cns = repo.func(SEM, "compute_node_semantic_id")
    dropped: Set[str] = set()
    for c in ast.walk(cns):
        if isinstance(c, ast.Compare) and len(c.ops) == 1 and isinstance(c.ops[0], (ast.NotEq, ast.NotIn)):
            for x in ast.walk(c.comparators[0]):
                if isinstance(x, ast.Constant) and isinstance(x.value, str):
                    dropped.add(x.value)
    R.check(dropped <= CANON_DROP_ALLOWED, r, SEM, "compute_node_semantic_id", f"keys dropped by canonicalisation: {sorted(dropped)}", f"{sorted(dropped - CANON_DROP_ALLOWED)} are dropped before hashing", cns.lineno)
    hd = [c for c in calls_in(cns) if call_name(c) == "json.dumps"]
    ok = bool(hd) and isinstance(hd[0].args[0], ast.Name) and any(isinstance(v, ast.Call) and call_attr(v) == "_canonicalize" for v in assigned_value(cns, hd[0].args[0].id))
    R.check(ok, r, SEM, "compute_node_semantic_id", "hash(json.dumps(_canonicalize(_strip_ui_only(meta))))", "node semantic id does not hash the whole (UI-stripped) metadata", cns.lineno)
    # pipeline semantic id
    cps = repo.func(SEM, "compute_pipeline_semantic_id")
    lcs = [n for n in ast.walk(cps) if isinstance(n, ast.ListComp)]
    ok = False
    per_node: Set[str] = set()
    if lcs:
        lc = lcs[0]
        gen = lc.generators[0]
        ok = not gen.ifs and "nodes" in ast.unparse(gen.iter) and not any(call_attr(c) in ("sorted", "set", "reversed") for c in ast.walk(gen.iter) if isinstance(c, ast.Call))
        per_node = dict_literal_keys(lc.elt)
        for v in (lc.elt.values if isinstance(lc.elt, ast.Dict) else []):
            for dd in ast.walk(v):
                if isinstance(dd, ast.Dict):
                    per_node |= dict_literal_keys(dd)
    R.check(ok, r, SEM, "compute_pipeline_semantic_id", "per-node list over all canonical nodes, in order, unfiltered", "nodes are filtered / reordered before hashing: number or order of nodes can change without changing the semantic id", cps.lineno)
    R.check("node_uuid" in per_node, r, SEM, "compute_pipeline_semantic_id", "per-node structure contains node_uuid", "node uuid (processor, parameters, position) does not reach the pipeline semantic id", cps.lineno)
    R.check("node_semantic_id" in per_node, r, SEM, "compute_pipeline_semantic_id", "per-node structure contains node_semantic_id", "the sweep definition (wrapped processor, expressions, domains, mode, broadcast, collection) never reaches the pipeline semantic id: generated sweep classes share one processor_ref", cps.lineno)
    nsi = [c for c in ast.walk(cps) if isinstance(c, ast.Call) and call_attr(c) == "compute_node_semantic_id"]
    ok = bool(nsi) and "preprocessor_metadata" in ast.unparse(nsi[0].args[0])
    R.check(ok, r, SEM, "compute_pipeline_semantic_id", "node_semantic_id = compute_node_semantic_id(node['preprocessor_metadata'])", "the rolled-up node semantic id is not computed from the node's preprocessor metadata", cps.lineno)
    pd = [c for c in calls_in(cps) if call_name(c) == "json.dumps"]
    ok = bool(pd) and isinstance(pd[0].args[0], ast.Name) and any(isinstance(v, ast.Dict) for v in assigned_value(cps, pd[0].args[0].id))
    R.check(ok, r, SEM, "compute_pipeline_semantic_id", "hash(json.dumps(pipeline_structure))", "the per-node structure is not what gets hashed", cps.lineno)
    # config id
    cpc = repo.func(SEM, "compute_pipeline_config_id")
    src = ast.unparse(cpc)
    ok = "_sha256_json(ordered)" in src and any(isinstance(v, ast.Call) and call_attr(v) == "sorted" and dotted_name(v.args[0]) == cpc.args.args[0].arg for v in assigned_value(cpc, "ordered"))
    R.check(ok, r, SEM, "compute_pipeline_config_id", "hash of all (uuid, semantic id) pairs", "config id does not cover every pair", cpc.lineno)


def sweep_metadata(repo: Repo, R: Report) -> None:
    r = R.rule("C05-D2-sweep-definition-in-metadata", "generated sweep classes carry no identity in processor_ref; the whole sweep definition (wrapped processor, expression signatures, variable domains, mode, broadcast, collection, dependencies) is in the preprocessor metadata, and the same metadata object enriches the canonical nodes on the inspection and the run-time path; a string processor reference is hashed as written", 12)
    create = repo.func(SWEEP, "ParametricSweepFactory.create")
    pm = next((n for n in ast.walk(create) if isinstance(n, FuncNode) and n.name == "_preprocessor_metadata"), None)
    if pm is None:
        raise AnalysisError("_preprocessor_metadata not found")
    ret = next((n.value for n in walk_no_nested(pm) if isinstance(n, ast.Return) and isinstance(n.value, ast.Dict)), None)
    keys = {k.value: v for k, v in zip(ret.keys, ret.values) if isinstance(k, ast.Constant)} if ret is not None else {}
    sources = {
        "element_ref": "_element", "param_expressions": "_expr_src", "variables": "_vars", "mode": "_mode", "broadcast": "_broadcast", "collection": "_collection_output", "dependencies": "_required_external",
    }
    for k in sorted(SWEEP_META_KEYS):
        v = keys.get(k)
        txt = ""
        if v is not None:
            txt = ast.unparse(v)
            for nm in {x.id for x in ast.walk(v) if isinstance(x, ast.Name)}:
                for d in assigned_value(pm, nm):
                    txt += " " + ast.unparse(d)
                    for nm2 in {x.id for x in ast.walk(d) if isinstance(x, ast.Name)}:
                        for d2 in assigned_value(pm, nm2):
                            txt += " " + ast.unparse(d2)
        R.check(v is not None and sources[k] in txt, r, SWEEP, "ParametricSweepFactory.create._preprocessor_metadata", f"metadata[{k!r}] <- cls.{sources[k]}", f"the sweep's {k} does not reach the metadata that is hashed: changing it changes no id", pm.lineno)
    pe = keys.get("param_expressions")
    pe_txt = " ".join(ast.unparse(d) for d in ([pe] + (assigned_value(pm, pe.id) if isinstance(pe, ast.Name) else [])) if d is not None)
    R.check("normalize_expression_sig_v1(src)" in pe_txt.replace(" ", "").replace("normalize_expression_sig_v1(src)", "normalize_expression_sig_v1(src)") or "normalize_expression_sig_v1(" in pe_txt, r, SWEEP, "ParametricSweepFactory.create._preprocessor_metadata", "param_expressions[*].sig = normalize_expression_sig_v1(source)", "expression signatures are not computed from the expression source", pm.lineno)
    vm = keys.get("variables")
    vm_txt = " ".join(ast.unparse(d) for d in ([vm] + (assigned_value(pm, vm.id) if isinstance(vm, ast.Name) else [])) if d is not None)
    R.check("variable_domain_signature(spec)" in vm_txt, r, SWEEP, "ParametricSweepFactory.create._preprocessor_metadata", "variables[*] = variable_domain_signature(spec)", "variable domains are not summarised by the domain signature", pm.lineno)
    # every generated variant exposes the metadata
    n_hooks = sum(1 for n in ast.walk(create) if isinstance(n, ast.Assign) and any(isinstance(t, ast.Subscript) and isinstance(t.slice, ast.Constant) and t.slice.value == "preprocessor" for t in n.targets) and isinstance(n.value, ast.Call) and call_attr(n.value) == "_preprocessor_metadata")
    R.check(n_hooks == 3, r, SWEEP, "ParametricSweepFactory.create", "meta['preprocessor'] = _preprocessor_metadata(cls) in all three variants", f"only {n_hooks} of the 3 generated sweep variants publish their definition", create.lineno)
    # string processor refs are hashed as written
    cn = repo.func(GRAPH, "_canonical_node")
    lits = [n for n in walk_no_nested(cn) if isinstance(n, ast.Dict) and "processor_ref" in dict_literal_keys(n)]
    pv = dict(zip([k.value for k in lits[0].keys if isinstance(k, ast.Constant)], lits[0].values)).get("processor_ref") if lits else None
    pname = pv.id if isinstance(pv, ast.Name) else None
    defs = [n for n in walk_no_nested(cn) if isinstance(n, ast.Assign) and any(isinstance(t, ast.Name) and t.id == pname for t in n.targets)]
    ok = bool(defs)
    for d in defs:
        if isinstance(d.value, ast.Call) and call_attr(d.value) == "get" and dotted_name(d.value.func.value) == cn.args.args[0].arg:
            continue
        guards = [a for a in ancestors(d) if isinstance(a, ast.If)]
        is_type_branch = any("isinstance" in ast.unparse(g.test) and "type" in ast.unparse(g.test) and "str" not in ast.unparse(g.test) for g in guards)
        if is_type_branch and isinstance(d.value, ast.JoinedStr) and "__qualname__" in ast.unparse(d.value):
            continue
        ok = False
        R.violation(r, GRAPH, "_canonical_node", norm(d), "a string processor reference is rewritten before hashing (e.g. resolved to a generated class whose name drops parts of the shorthand): `template:` / `rename:` / `delete:` nodes that differ in meaning get the same node uuid", d.lineno)
    if ok:
        R.ok(r, GRAPH, "_canonical_node", f"processor_ref: string kept as written, class -> module.qualname ({len(defs)} defs)", "", cn.lineno)
    # same metadata object on both paths
    bip = repo.func(BUILDER, "build_inspection_payload")
    stores = [n for n in ast.walk(bip) if isinstance(n, ast.Assign) and any(isinstance(t, ast.Subscript) and isinstance(t.slice, ast.Constant) and t.slice.value == "preprocessor_metadata" and dotted_name(t.value) == "enriched" for t in n.targets)]
    ok = bool(stores)
    for s in stores:
        vals = assigned_value(bip, s.value.id) if isinstance(s.value, ast.Name) else [s.value]
        ok = ok and bool(vals) and all("inspection.nodes" in ast.unparse(v) and ".preprocessor_metadata" in ast.unparse(v) for v in vals)
    R.check(ok, r, BUILDER, "build_inspection_payload", "enriched['preprocessor_metadata'] = inspection.nodes[i].preprocessor_metadata", "the inspection path enriches the canonical nodes with something other than the processor's full preprocessor metadata (e.g. a sanitised view without element_ref): its semantic id ignores part of the sweep definition and differs from the run-time one", bip.lineno)
    bpi = repo.func(BUILDER, "build_pipeline_inspection")
    st2 = [n for n in ast.walk(bpi) if isinstance(n, ast.Assign) and any(dotted_name(t) == "node_inspection.preprocessor_metadata" for t in n.targets)]
    ok = bool(st2) and all(any("get('preprocessor')" in ast.unparse(v) for v in assigned_value(bpi, s.value.id)) for s in st2 if isinstance(s.value, ast.Name))
    R.check(ok, r, BUILDER, "build_pipeline_inspection", "node_inspection.preprocessor_metadata = processor metadata['preprocessor']", "inspection records a different preprocessor metadata than the processor publishes", bpi.lineno)
    ex = repo.func(ORCH, "SemantivaOrchestrator.execute")
    st3 = [n for n in ast.walk(ex) if isinstance(n, ast.Assign) and any(isinstance(t, ast.Subscript) and isinstance(t.slice, ast.Constant) and t.slice.value == "preprocessor_metadata" for t in n.targets)]
    ok = bool(st3) and all(isinstance(s.value, ast.Name) and any("get('preprocessor')" in ast.unparse(v) for v in assigned_value(ex, s.value.id)) for s in st3)
    R.check(ok, r, ORCH, "SemantivaOrchestrator.execute", "canonical node enriched with processor metadata['preprocessor']", "the run-time path enriches canonical nodes with something other than the processor's preprocessor metadata", ex.lineno)


def positional_and_domains(repo: Repo, R: Report) -> None:
    r = R.rule("C05-D3-position-and-domain", "declaration_index is the enumerate() index of the node in the spec; the range signature covers every RangeSpec field; the sequence signature covers count and a digest of all values", 9)
    bcs = repo.func(GRAPH, "build_canonical_spec")
    loops = [n for n in walk_no_nested(bcs) if isinstance(n, ast.For) and isinstance(n.iter, ast.Call) and call_attr(n.iter) == "enumerate"]
    ok = False
    if loops:
        idx = loops[0].target.elts[0].id if isinstance(loops[0].target, ast.Tuple) else None
        c = next((c for c in calls_in(loops[0]) if call_attr(c) == "_canonical_node"), None)
        ok = c is not None and len(c.args) >= 2 and dotted_name(c.args[1]) == idx and not loops[0].iter.keywords and len(loops[0].iter.args) == 1
    R.check(ok, r, GRAPH, "build_canonical_spec", "_canonical_node(cfg, <enumerate index>, ...)", "identical nodes at different positions can receive the same uuid", bcs.lineno)
    cn = repo.func(GRAPH, "_canonical_node")
    lit = next((n for n in walk_no_nested(cn) if isinstance(n, ast.Dict) and "declaration_index" in dict_literal_keys(n)), None)
    di = dict(zip([k.value for k in lit.keys if isinstance(k, ast.Constant)], lit.values)).get("declaration_index") if lit is not None else None
    R.check(dotted_name(di) == "declaration_index", r, GRAPH, "_canonical_node", "'declaration_index': declaration_index", "the positional discriminator is not the parameter", cn.lineno)
    # RangeSpec fields vs signature
    rs = repo.cls(SWEEP, "RangeSpec")
    fields = [st.target.id for st in rs.body if isinstance(st, ast.AnnAssign) and isinstance(st.target, ast.Name)]
    vds = repo.func(SEM, "variable_domain_signature")
    range_ret = None
    seq_ret = None
    for n in walk_no_nested(vds):
        if isinstance(n, ast.Return) and isinstance(n.value, ast.Dict):
            kinds = dict(zip([k.value for k in n.value.keys if isinstance(k, ast.Constant)], n.value.values))
            kv = kinds.get("kind")
            if isinstance(kv, ast.Constant) and kv.value == "range":
                range_ret = kinds
            if isinstance(kv, ast.Constant) and kv.value == "sequence":
                seq_ret = kinds
    if range_ret is None or seq_ret is None:
        raise AnalysisError("variable_domain_signature: range / sequence branches not found")
    for f in fields:
        v = range_ret.get(f)
        R.check(v is not None and f"'{f}'" in ast.unparse(v) or (v is not None and f".{f}" in ast.unparse(v)), r, SEM, "variable_domain_signature", f"range signature covers RangeSpec.{f}", f"RangeSpec.{f} is not part of the domain signature: changing it changes no id", vds.lineno)
    cnt = seq_ret.get("count")
    R.check(cnt is not None and ast.unparse(cnt) == "len(values)", r, SEM, "variable_domain_signature", "sequence signature: count = len(values)", "the number of values is not part of the signature", vds.lineno)
    dig = [v for v in assigned_value(vds, "digest")]
    ok = bool(dig) and all(("values" in {x.id for x in ast.walk(v) if isinstance(x, ast.Name)}) and not any(isinstance(s, ast.Subscript) for s in ast.walk(v)) for v in dig)
    vals = assigned_value(vds, "values")
    ok = ok and bool(vals) and all(ast.unparse(v) == "list(spec.values)" for v in vals)
    sample = seq_ret.get("sample")
    ok = ok and sample is not None and "digest" in ast.unparse(sample)
    R.check(ok, r, SEM, "variable_domain_signature", "sequence signature: digest over all values", "the sequence digest covers only a part of the values (e.g. head/tail): sequences differing in the middle share a signature", vds.lineno)
    fc = [n for n in walk_no_nested(vds) if isinstance(n, ast.Return) and isinstance(n.value, ast.Dict) and any(isinstance(v, ast.Constant) and v.value == "from_context" for v in n.value.values)]
    ok = bool(fc) and "key" in dict_literal_keys(fc[0].value)
    R.check(ok, r, SEM, "variable_domain_signature", "from_context signature carries the key", "the context key of a from_context variable is not part of the signature", vds.lineno)


def run(repo: Repo, R: Report) -> None:
    R.assume(
        "sha256 / uuid5 are injective for practical purposes and json.dumps(sort_keys=True) is injective on JSON values",
        "distinct processor classes have distinct module.qualname (except classes generated inside factory functions, handled by D2)",
    )
    R.undecided("hash collisions; equality of expression *values* (C12)")
    field_coverage(repo, R)
    sweep_metadata(repo, R)
    positional_and_domains(repo, R)
