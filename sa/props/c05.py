"""C05 - identities discriminate: a change of meaning changes semantic and config ID.

Sensitivity to a field is a reachability question: does the field flow into the hashed bytes?
D1 field-coverage tables of every id, D2 generated processors have no identity in processor_ref,
so the sweep definition must reach the pipeline ids through the preprocessor metadata,
D3 positional discriminator and complete domain signatures.
D1b the converter of the hashed parameter map keeps every value (no narrowing / folding / filtering),
D2 also: one metadata entry per declared variable / expression, D5 no id is taken from a process-lifetime memo.

Every rule is decided on the normal form of the anchored function (private helpers inlined, module
constants substituted, single-assignment locals propagated, accumulate loops as comprehensions) and
speaks about *roles*: the mapping that reaches `json.dumps` on the way to `uuid5`, the value stored
under a key of that mapping, the expression a value is derived from (backward flow through locals,
tuple unpacking, container stores), never about the spelling of a local or the position of a line.
"""
from __future__ import annotations

import ast
from typing import Dict, Iterable, List, Optional, Set, Tuple

from ..cfg import CFG, edges_guaranteeing, reaching_defs
from ..engine import (
    AnalysisError,
    FuncNode,
    Module,
    Repo,
    ancestors,
    assigned_value,
    call_attr,
    call_name,
    calls_in,
    dict_items_built,
    dotted_name,
    enclosing_function,
    kwarg,
    norm,
    parent,
    qualname_of,
    returned_values,
    slice_text,
    stmt_of,
    walk_no_nested,
)
from ..pat import find, find1, match, name_of
from ..normal import nfunc
from ..report import Report

GRAPH = "semantiva/pipeline/graph_builder.py"
SEM = "semantiva/metadata/semantic_id.py"
SWEEP = "semantiva/data_processors/parametric_sweep_factory.py"
BUILDER = "semantiva/inspection/builder.py"
ORCH = "semantiva/execution/orchestrator/orchestrator.py"
CANON_KEYS = {"role", "processor_ref", "params", "ports", "declaration_index", "declaration_subindex"}
SWEEP_META_KEYS = {"element_ref", "param_expressions", "variables", "mode", "broadcast", "collection", "dependencies"}
UI_ONLY_ALLOWED = {"preprocessor_view"}
CANON_DROP_ALLOWED = {"expr"}

# calls that return (a copy / reordering of) their first argument with every element kept
WHOLE_FUNCS = {"dict", "list", "tuple", "sorted", "deepcopy", "OrderedDict", "cast", "str", "repr"}
WHOLE_METHODS = {"copy", "items", "encode"}
GROW_METHODS = {"append", "add", "extend", "update", "insert", "setdefault"}
HASH_FUNCS = {"sha256", "sha1", "md5", "sha512", "blake2b", "_sha256_json"}
REORDERING = {"sorted", "set", "reversed", "frozenset"}


def _u(e: Optional[ast.AST]) -> str:
    return ast.unparse(e) if e is not None else ""


def NF(repo: Repo, rel: str, qualname: str, keep: Iterable[str] = ()) -> ast.FunctionDef:
    """The normal form every rule of this module reads."""
    return nfunc(repo, rel, qualname, keep=tuple(keep), copyprop="all", loops=True)


# ---------------------------------------------------------------------------------------------------------
# value flow inside one (normalised) function
# ---------------------------------------------------------------------------------------------------------

def _fn_stmts(fn: ast.AST) -> List[ast.AST]:
    cache = fn.__dict__.get("_c05_nodes")
    if cache is None:
        cache = list(walk_no_nested(fn))
        fn.__dict__["_c05_nodes"] = cache
    return cache


def name_values(fn: ast.AST, name: str) -> List[ast.AST]:
    """Every expression that becomes the value of the local *name* or is put into the object it names:
    assignments (also element-wise through tuple unpacking), augmented assignments, loop / with targets,
    `name[k] = v`, `name.append(v)` / `.update(..)` / `.setdefault(k, v)` ..."""
    out: List[ast.AST] = []

    def bind(target: ast.AST, value: ast.AST) -> None:
        if isinstance(target, ast.Name):
            if target.id == name:
                out.append(value)
        elif isinstance(target, (ast.Tuple, ast.List)):
            if isinstance(value, (ast.Tuple, ast.List)) and len(value.elts) == len(target.elts) and not any(isinstance(e, ast.Starred) for e in list(value.elts) + list(target.elts)):
                for t, v in zip(target.elts, value.elts):
                    bind(t, v)
            elif any(isinstance(x, ast.Name) and x.id == name for x in ast.walk(target)):
                out.append(value)
        elif isinstance(target, ast.Starred):
            bind(target.value, value)
        elif isinstance(target, (ast.Subscript, ast.Attribute)):
            root = target
            while isinstance(root, (ast.Subscript, ast.Attribute)):
                root = root.value
            if isinstance(root, ast.Name) and root.id == name:
                out.append(value)

    for n in _fn_stmts(fn):
        if isinstance(n, ast.Assign):
            for t in n.targets:
                bind(t, n.value)
        elif isinstance(n, ast.AnnAssign) and n.value is not None:
            bind(n.target, n.value)
        elif isinstance(n, ast.AugAssign):
            bind(n.target, n.value)
        elif isinstance(n, ast.NamedExpr):
            bind(n.target, n.value)
        elif isinstance(n, (ast.For, ast.AsyncFor)):
            bind(n.target, n.iter)
        elif isinstance(n, (ast.With, ast.AsyncWith)):
            for it in n.items:
                if it.optional_vars is not None:
                    bind(it.optional_vars, it.context_expr)
        elif isinstance(n, ast.Call) and isinstance(n.func, ast.Attribute) and n.func.attr in GROW_METHODS:
            root = n.func.value
            while isinstance(root, (ast.Subscript, ast.Attribute)):
                root = root.value
            if isinstance(root, ast.Name) and root.id == name:
                out.extend(n.args)
                out.extend(k.value for k in n.keywords)
    return out


def flow(fn: ast.AST, expr: Optional[ast.AST]) -> List[ast.AST]:
    """Backward slice of *expr* inside *fn*: every syntax node of *expr* and of the expressions its locals are
    built from (transitively).  `X in flow(fn, e)` reads "X can contribute to the value of e"."""
    if expr is None:
        return []
    out: List[ast.AST] = []
    seen: Set[str] = set()
    todo: List[ast.AST] = [expr]
    while todo:
        e = todo.pop()
        for x in ast.walk(e):
            out.append(x)
            if isinstance(x, ast.Name) and isinstance(x.ctx, ast.Load) and x.id not in seen:
                seen.add(x.id)
                todo.extend(name_values(fn, x.id))
    return out


def reads_attr(nodes: Iterable[ast.AST], attr: str, of: Optional[str] = None) -> bool:
    """`<of>.attr` or `getattr(<of>, 'attr', ..)` occurs in *nodes*."""
    for x in nodes:
        if isinstance(x, ast.Attribute) and x.attr == attr and (of is None or dotted_name(x.value) == of):
            return True
        if isinstance(x, ast.Call) and call_attr(x) == "getattr" and len(x.args) >= 2 and isinstance(x.args[1], ast.Constant) and x.args[1].value == attr and (of is None or dotted_name(x.args[0]) == of):
            return True
    return False


def reads_key(nodes: Iterable[ast.AST], key: str) -> bool:
    """`<m>['key']` or `<m>.get('key', ..)` occurs in *nodes*."""
    for x in nodes:
        if isinstance(x, ast.Subscript) and isinstance(x.slice, ast.Constant) and x.slice.value == key:
            return True
        if isinstance(x, ast.Call) and call_attr(x) == "get" and x.args and isinstance(x.args[0], ast.Constant) and x.args[0].value == key:
            return True
    return False


def calls_to(nodes: Iterable[ast.AST], *names: str) -> List[ast.Call]:
    return [x for x in nodes if isinstance(x, ast.Call) and call_attr(x) in names]


def _local_callee(repo: Repo, rel: str, fn: ast.AST, call: ast.Call) -> Optional[Tuple[str, ast.AST]]:
    """(qualname, def) of a function of the same module / nested in *fn* that *call* invokes by plain name."""
    nm = call_attr(call)
    if nm is None:
        return None
    for n in ast.walk(fn):
        if isinstance(n, FuncNode) and n is not fn and n.name == nm:
            return qualname_of(n), n
    if isinstance(call.func, ast.Name) or (isinstance(call.func, ast.Attribute) and dotted_name(call.func.value) in ("self", "cls")):
        t = repo.module(rel).defs.get(nm)
        if isinstance(t, FuncNode):
            return nm, t
    return None


def alternatives(fn: ast.AST, e: ast.AST, _seen: Optional[Set[str]] = None) -> List[ast.AST]:
    """The expressions *e* can evaluate to, split at conditional expressions, `or` defaults and the distinct
    assignments of a local."""
    _seen = _seen if _seen is not None else set()
    if isinstance(e, ast.IfExp):
        return alternatives(fn, e.body, _seen) + alternatives(fn, e.orelse, _seen)
    if isinstance(e, ast.Name) and e.id not in _seen:
        vals = [v for v in assigned_value(fn, e.id)]
        if vals:
            _seen.add(e.id)
            out: List[ast.AST] = []
            for v in vals:
                out.extend(alternatives(fn, v, _seen))
            return out
    return [e]


def mapping_items(repo: Repo, rel: str, fn: ast.AST, expr: Optional[ast.AST], depth: int = 0, _seen: Optional[Set[Tuple[int, str]]] = None) -> Dict[str, List[ast.AST]]:
    """Constant keys of the mapping *expr* evaluates to, with every expression written under each key (in source
    order): dict literals with `**` spreads, `dict(m, k=v)`, `a | b`, copies, conditional expressions, locals with
    their `m[k] = v` / `m.update(..)` / `m.setdefault(k, v)` stores, and the returned mappings of functions of the
    same module."""
    out: Dict[str, List[ast.AST]] = {}
    _seen = _seen if _seen is not None else set()
    if expr is None or depth > 4:
        return out

    def add(k, v: ast.AST) -> None:
        out.setdefault(k, []).append(v)

    def merge(e: Optional[ast.AST], d: int = depth) -> None:
        for k, vs in mapping_items(repo, rel, fn, e, d, _seen).items():
            out.setdefault(k, []).extend(vs)

    if isinstance(expr, ast.Dict):
        for k, v in zip(expr.keys, expr.values):
            if k is None:
                merge(v)
            elif isinstance(k, ast.Constant):
                add(k.value, v)
    elif isinstance(expr, ast.IfExp):
        merge(expr.body)
        merge(expr.orelse)
    elif isinstance(expr, ast.BoolOp):
        for v in expr.values:
            merge(v)
    elif isinstance(expr, ast.BinOp) and isinstance(expr.op, ast.BitOr):
        merge(expr.left)
        merge(expr.right)
    elif isinstance(expr, ast.NamedExpr):
        merge(expr.value)
    elif isinstance(expr, ast.Call):
        nm = call_attr(expr)
        if nm in ("dict", "OrderedDict"):
            for a in expr.args:
                merge(a)
            for kw in expr.keywords:
                if kw.arg is None:
                    merge(kw.value)
                else:
                    add(kw.arg, kw.value)
        elif nm == "copy" and isinstance(expr.func, ast.Attribute) and not expr.args:
            merge(expr.func.value)
        elif nm in ("deepcopy", "copy", "cast") and expr.args:
            merge(expr.args[-1])
        else:
            hit = _local_callee(repo, rel, fn, expr)
            if hit is not None:
                callee = NF(repo, rel, hit[0])
                for r in walk_no_nested(callee):
                    if isinstance(r, ast.Return) and r.value is not None:
                        for k, vs in mapping_items(repo, rel, callee, r.value, depth + 1, _seen).items():
                            out.setdefault(k, []).extend(vs)
    elif isinstance(expr, ast.Name):
        key = (id(fn), expr.id)
        if key in _seen:
            return out
        _seen.add(key)
        for v in assigned_value(fn, expr.id):
            merge(v)
        for _st, k, v in key_stores(fn, expr.id):
            add(k, v)
    return out


def key_stores(fn: ast.AST, name: str) -> List[Tuple[ast.AST, object, ast.AST]]:
    """(statement, constant key, value) of every store into the mapping the local *name* holds."""
    out: List[Tuple[ast.AST, object, ast.AST]] = []
    for n in _fn_stmts(fn):
        if isinstance(n, (ast.Assign, ast.AnnAssign)):
            tgts = n.targets if isinstance(n, ast.Assign) else [n.target]
            for t in tgts:
                if isinstance(t, ast.Subscript) and isinstance(t.value, ast.Name) and t.value.id == name and isinstance(t.slice, ast.Constant) and n.value is not None:
                    out.append((n, t.slice.value, n.value))
        elif isinstance(n, ast.Call) and isinstance(n.func, ast.Attribute) and isinstance(n.func.value, ast.Name) and n.func.value.id == name:
            if n.func.attr == "update":
                for a in n.args:
                    if isinstance(a, ast.Dict):
                        for k, v in zip(a.keys, a.values):
                            if isinstance(k, ast.Constant):
                                out.append((stmt_of(n), k.value, v))
                for kw in n.keywords:
                    if kw.arg is not None:
                        out.append((stmt_of(n), kw.arg, kw.value))
            elif n.func.attr == "__setitem__" and len(n.args) == 2 and isinstance(n.args[0], ast.Constant):
                out.append((stmt_of(n), n.args[0].value, n.args[1]))
    out.sort(key=lambda t: (getattr(t[0], "lineno", 0), getattr(t[0], "col_offset", 0)))
    return out


def setdefault_stores(fn: ast.AST, name: str) -> List[Tuple[object, ast.AST]]:
    return [(n.args[0].value, n.args[1]) for n in _fn_stmts(fn) if isinstance(n, ast.Call) and isinstance(n.func, ast.Attribute) and n.func.attr == "setdefault" and isinstance(n.func.value, ast.Name) and n.func.value.id == name and len(n.args) == 2 and isinstance(n.args[0], ast.Constant)]


def first_items(items: Dict[str, List[ast.AST]]) -> Dict[str, ast.AST]:
    return {k: vs[0] for k, vs in items.items() if vs}


def returned_mapping(repo: Repo, rel: str, fn: ast.AST) -> Dict[str, List[ast.AST]]:
    out: Dict[str, List[ast.AST]] = {}
    for r in walk_no_nested(fn):
        if isinstance(r, ast.Return) and r.value is not None:
            for k, vs in mapping_items(repo, rel, fn, r.value).items():
                out.setdefault(k, []).extend(vs)
            if isinstance(r.value, ast.Name):
                for k, v in setdefault_stores(fn, r.value.id):
                    out.setdefault(k, []).append(v)
    return out


def mapping_keys_of(mod: Module, fn: ast.AST, expr: ast.AST, depth: int = 0) -> Dict[str, ast.AST]:
    """Kept for importers: constant keys (first value) of the mapping *expr* evaluates to."""
    out: Dict[str, ast.AST] = {}
    if isinstance(expr, (ast.Dict, ast.IfExp)):
        out.update(dict_items_built(fn, expr))
    if isinstance(expr, ast.Name):
        for v in assigned_value(fn, expr.id):
            out.update(mapping_keys_of(mod, fn, v, depth))
        for _st, k, v in key_stores(fn, expr.id):
            out.setdefault(k, v)
    if isinstance(expr, ast.Call) and depth < 2:
        callee = mod.defs.get(call_attr(expr) or "")
        if isinstance(callee, FuncNode):
            for r in walk_no_nested(callee):
                if isinstance(r, ast.Return) and r.value is not None:
                    out.update(mapping_keys_of(mod, callee, r.value, depth + 1))
    return out


def dict_literal_keys(d: ast.AST) -> Set[str]:
    return {k.value for k in d.keys if isinstance(k, ast.Constant)} if isinstance(d, ast.Dict) else set()


def derives_whole(repo: Repo, rel: str, fn: ast.AST, e: Optional[ast.AST], roots: Set[str], _seen: Optional[Set[str]] = None, root_pred=None, key_filters: bool = True) -> bool:
    """*e* is one of the *roots* (parameters / locals standing for the complete object) or is computed from one
    by operations that keep every element: copies, sorting, re-listing, element-wise comprehensions without a
    condition (key filters of a mapping comprehension are judged by the dropped-key rule), functions of the same
    module applied to the whole object.  Subscripts, `.get`, slices, filters make a *part* of the object.
    *root_pred(e)* recognises a root that is an expression (an attribute read); with *key_filters=False* no
    element may be skipped at all."""
    _seen = _seen if _seen is not None else set()
    if e is None:
        return False
    if root_pred is not None and root_pred(e):
        return True
    if isinstance(e, ast.Name):
        if e.id in roots:
            return True
        if e.id in _seen:
            return True  # a local re-bound to something computed from itself (`payload = dumps(f(payload))`): judged by its other bindings
        _seen.add(e.id)
        vals = assigned_value(fn, e.id)
        if vals and all(_is_empty_container(v) for v in vals):
            return _accumulated_whole(repo, rel, fn, e.id, roots, _seen, root_pred, key_filters)
        return bool(vals) and all(derives_whole(repo, rel, fn, v, roots, _seen, root_pred, key_filters) for v in vals)
    if isinstance(e, ast.IfExp):
        return derives_whole(repo, rel, fn, e.body, roots, _seen, root_pred, key_filters) and derives_whole(repo, rel, fn, e.orelse, roots, _seen, root_pred, key_filters)
    if isinstance(e, ast.JoinedStr):
        return any(isinstance(v, ast.FormattedValue) and derives_whole(repo, rel, fn, v.value, roots, _seen, root_pred, key_filters) for v in e.values)
    if isinstance(e, ast.BinOp) and isinstance(e.op, ast.Add):
        return derives_whole(repo, rel, fn, e.left, roots, _seen, root_pred, key_filters) or derives_whole(repo, rel, fn, e.right, roots, _seen, root_pred, key_filters)
    if isinstance(e, ast.Call):
        nm = call_attr(e)
        if isinstance(e.func, ast.Attribute) and nm in WHOLE_METHODS:
            return derives_whole(repo, rel, fn, e.func.value, roots, _seen, root_pred, key_filters)
        if nm in WHOLE_FUNCS or nm == "dumps":
            return bool(e.args) and derives_whole(repo, rel, fn, e.args[-1] if nm == "cast" else e.args[0], roots, _seen, root_pred, key_filters)
        if _local_callee(repo, rel, fn, e) is not None:
            return bool(e.args) and derives_whole(repo, rel, fn, e.args[0], roots, _seen, root_pred, key_filters)
        return False
    if isinstance(e, (ast.ListComp, ast.SetComp, ast.GeneratorExp, ast.DictComp)):
        if len(e.generators) != 1:
            return False
        g = e.generators[0]
        tnames = {x.id for x in ast.walk(g.target) if isinstance(x, ast.Name)}
        key_var = g.target.elts[0].id if isinstance(g.target, ast.Tuple) and g.target.elts and isinstance(g.target.elts[0], ast.Name) else None
        for t in g.ifs:
            if not (key_filters and isinstance(e, ast.DictComp) and key_var is not None and _is_key_filter(t, {key_var})):
                return False
        body = [e.key, e.value] if isinstance(e, ast.DictComp) else [e.elt]
        used = {x.id for b in body for x in ast.walk(b) if isinstance(x, ast.Name)}
        if not tnames <= used:
            return False
        if any(isinstance(x, ast.Subscript) and isinstance(x.value, ast.Name) and x.value.id in tnames for b in body for x in ast.walk(b)):
            return False
        return derives_whole(repo, rel, fn, g.iter, roots, _seen, root_pred, key_filters)
    return False


def _is_empty_container(v: ast.AST) -> bool:
    return (isinstance(v, (ast.List, ast.Set)) and not v.elts) or (isinstance(v, ast.Dict) and not v.keys) or (isinstance(v, ast.Call) and call_attr(v) in ("list", "dict", "set", "OrderedDict") and not v.args and not v.keywords)


def _accumulated_whole(repo: Repo, rel: str, fn: ast.AST, name: str, roots: Set[str], _seen: Set[str], root_pred=None, key_filters: bool = True) -> bool:
    """The local *name* starts empty and is filled, one element per element, in loops over a whole object: every
    store `name[k] = v` / `name.append(v)` / `name.add(v)` sits in a loop whose iterable derives whole, uses every
    loop variable, and is skipped only by key filters of a mapping traversal (judged by the dropped-key rule)."""
    stores: List[Tuple[ast.AST, List[ast.AST]]] = []
    for n in _fn_stmts(fn):
        if isinstance(n, ast.Assign):
            for t in n.targets:
                if isinstance(t, ast.Subscript) and isinstance(t.value, ast.Name) and t.value.id == name:
                    stores.append((n, [t.slice, n.value]))
        elif isinstance(n, ast.Call) and isinstance(n.func, ast.Attribute) and n.func.attr in ("append", "add") and isinstance(n.func.value, ast.Name) and n.func.value.id == name and len(n.args) == 1:
            stores.append((stmt_of(n), [n.args[0]]))
        elif isinstance(n, ast.Call) and isinstance(n.func, ast.Attribute) and n.func.attr in GROW_METHODS and isinstance(n.func.value, ast.Name) and n.func.value.id == name:
            return False
    if not stores:
        return False
    for st, body in stores:
        loop = next((a for a in ancestors(st) if isinstance(a, ast.For)), None)
        if loop is None or loop.orelse or any(isinstance(x, (ast.Break, ast.Return)) for x in ast.walk(loop)):
            return False
        tnames = {x.id for x in ast.walk(loop.target) if isinstance(x, ast.Name)}
        key_var = loop.target.elts[0].id if isinstance(loop.target, ast.Tuple) and loop.target.elts and isinstance(loop.target.elts[0], ast.Name) else None
        is_map = len(body) == 2 and key_var is not None
        used = {x.id for b in body for x in flow(fn, b) if isinstance(x, ast.Name)}  # also through locals of the loop body
        if not tnames <= used:
            return False
        conds = [a.test for a in ancestors(st) if isinstance(a, ast.If) and any(a is x for x in ast.walk(loop))]
        conds += [x.test for x in ast.walk(loop) if isinstance(x, ast.If) and any(isinstance(y, ast.Continue) for y in ast.walk(x))]
        if any(not (key_filters and is_map and _is_key_filter(t, {key_var})) for t in conds):
            return False
        if not derives_whole(repo, rel, fn, loop.iter, roots, _seen, root_pred, key_filters):
            return False
    return True


def _is_key_filter(test: ast.AST, key_vars: Set[str]) -> bool:
    return any(isinstance(c, ast.Compare) and any(isinstance(x, ast.Name) and x.id in key_vars for side in [c.left] + list(c.comparators) for x in ast.walk(side)) for c in ast.walk(test))


# ---------------------------------------------------------------------------------------------------------
# D1
# ---------------------------------------------------------------------------------------------------------

def _hashed_node_objects(bcs: ast.AST) -> Tuple[List[ast.Call], List[ast.AST]]:
    """(uuid5 calls, the objects serialised into their name argument)."""
    uu = [c for c in walk_no_nested(bcs) if isinstance(c, ast.Call) and call_attr(c) == "uuid5"]
    objs: List[ast.AST] = []
    for c in uu:
        name_arg = c.args[1] if len(c.args) > 1 else kwarg(c, "name")
        for d in calls_to(flow(bcs, name_arg), "dumps"):
            if d.args:
                objs.append(d.args[0])
    return uu, objs


def _callee_effective_value(repo: Repo, rel: str, fn: ast.AST, call: ast.Call, key: str) -> Optional[ast.AST]:
    """What the mapping returned by the same-module function *call* invokes holds under *key*; a parameter of the
    callee is translated into the argument expression of the caller."""
    hit = _local_callee(repo, rel, fn, call)
    if hit is None:
        return None
    callee = NF(repo, rel, hit[0])
    rets = [x for x in walk_no_nested(callee) if isinstance(x, ast.Return) and x.value is not None]
    if len(rets) != 1:
        return None
    v = _effective_value(callee, CFG(callee, may_raise=lambda p: set()), rets[0].value, key, rets[0], 0, repo, rel)
    if isinstance(v, ast.Name) and v.id in _params_of(callee) and not assigned_value(callee, v.id):
        a = callee.args
        pos = [x.arg for x in a.posonlyargs + a.args]
        bound: Dict[str, ast.AST] = dict(zip(pos, call.args))
        bound.update({k.arg: k.value for k in call.keywords if k.arg})
        defaults = dict(zip(pos[len(pos) - len(a.defaults):], a.defaults))
        return bound.get(v.id, defaults.get(v.id))
    return v


def _effective_value(bcs: ast.AST, g: CFG, obj: ast.AST, key: str, use_stmt: ast.AST, _depth: int = 0, repo: Optional[Repo] = None, rel: str = "") -> Optional[ast.AST]:
    """The expression that sits under *key* of the mapping *obj* when *use_stmt* serialises it; None when it
    cannot be told (several competing stores, a store that does not always happen before the use)."""
    if _depth > 6:
        return None
    if isinstance(obj, ast.Dict):
        val: Optional[ast.AST] = None
        for k, v in zip(obj.keys, obj.values):
            if k is None:
                sub = _effective_value(bcs, g, v, key, use_stmt, _depth + 1, repo, rel)
                val = sub if sub is not None else val
            elif isinstance(k, ast.Constant) and k.value == key:
                val = v
        return val
    if isinstance(obj, ast.Call):
        nm = call_attr(obj)
        if nm in ("dict", "OrderedDict"):
            kw = kwarg(obj, key)
            if kw is not None:
                return kw
            return _effective_value(bcs, g, obj.args[0], key, use_stmt, _depth + 1, repo, rel) if obj.args else None
        if nm == "copy" and isinstance(obj.func, ast.Attribute) and not obj.args:
            return _effective_value(bcs, g, obj.func.value, key, use_stmt, _depth + 1, repo, rel)
        if nm == "deepcopy" and obj.args:
            return _effective_value(bcs, g, obj.args[0], key, use_stmt, _depth + 1, repo, rel)
        return _callee_effective_value(repo, rel, bcs, obj, key) if repo is not None else None
    if isinstance(obj, ast.IfExp):
        a = _effective_value(bcs, g, obj.body, key, use_stmt, _depth + 1, repo, rel)
        b = _effective_value(bcs, g, obj.orelse, key, use_stmt, _depth + 1, repo, rel)
        return a if a is not None and b is not None and ast.dump(a) == ast.dump(b) else None
    if isinstance(obj, ast.BinOp) and isinstance(obj.op, ast.BitOr):
        right = _effective_value(bcs, g, obj.right, key, use_stmt, _depth + 1, repo, rel)
        if right is not None:
            return right
        if _surely_lacks_key(obj.right, key):
            return _effective_value(bcs, g, obj.left, key, use_stmt, _depth + 1, repo, rel)
        return None
    if isinstance(obj, ast.NamedExpr):
        return _effective_value(bcs, g, obj.value, key, use_stmt, _depth + 1, repo, rel)
    if isinstance(obj, ast.Name):
        # the *last writers* of the entry on the paths into the serialisation: the binding of the local (it defines
        # every key: the literal, the callee's mapping) and the stores made afterwards, a later one replacing an
        # earlier one - whether the mapping is written as one literal, by successive stores or by update() is the
        # same thing.  Decided on the control-flow graph, not by counting stores or by line order.
        use_nodes = g.nodes_for(use_stmt)
        if not use_nodes:
            return None
        writers = _key_writers(g, obj.id, key)
        preds = _preds(g)
        todo = [p for u in use_nodes for p in preds.get(u, [])]
        seen: Set[int] = set()
        last: List[Tuple[str, Optional[ast.AST], ast.AST]] = []
        while todo:
            n = todo.pop()
            if n in seen:
                continue
            seen.add(n)
            if n in writers:
                last.append(writers[n])
                continue
            if n == g.entry:
                return None  # a path on which nothing was written: the entry is whatever the caller put there
            todo.extend(preds.get(n, []))
        vals: List[ast.AST] = []
        for how, v, st in last:
            if how == "unknown" or v is None:
                return None
            if how == "bind":
                v = _effective_value(bcs, g, v, key, st, _depth + 1, repo, rel)
                if v is None:
                    return None
            vals.append(v)
        if vals and all(ast.dump(v) == ast.dump(vals[0]) for v in vals):
            return vals[0]
    return None


def _surely_lacks_key(e: ast.AST, key: str) -> bool:
    """*e* is a mapping literal whose keys are all constants, none of them *key*."""
    return isinstance(e, ast.Dict) and all(isinstance(k, ast.Constant) and k.value != key for k in e.keys)


def _preds(g: CFG) -> Dict[int, List[int]]:
    p = g.__dict__.get("_c05_preds")
    if p is None:
        p = {}
        for a, outs in g.succ.items():
            for b, _l in outs:
                p.setdefault(b, []).append(a)
        g.__dict__["_c05_preds"] = p
    return p


def _key_writers(g: CFG, name: str, key: str) -> Dict[int, Tuple[str, Optional[ast.AST], ast.AST]]:
    """CFG node -> (how, value, statement) for every node that decides what the mapping held by the local *name* has
    under the constant key *key* afterwards: 'bind' (the local is bound to *value*: all entries come from there),
    'store' (`name[key] = value`, `name.update(key=value)` / `.update({key: value})`, `name.__setitem__(key, value)`),
    'unknown' (a write that may or may not touch the entry, or whose value depends on what was there: a store under a
    computed key, `update(<mapping>)`, `setdefault`, `pop`, `del`, `clear`, `|=`, tuple / loop / with bindings)."""
    cache = g.__dict__.setdefault("_c05_writers", {})
    if (name, key) in cache:
        return cache[(name, key)]
    out: Dict[int, Tuple[str, Optional[ast.AST], ast.AST]] = {}

    def is_me(e: ast.AST) -> bool:
        return isinstance(e, ast.Name) and e.id == name

    def mentions(t: ast.AST) -> bool:
        return any(is_me(x) for x in ast.walk(t))

    for n in g.nodes:
        a = n.ast
        if a is None or isinstance(a, FuncNode + (ast.ClassDef,)):
            continue
        verdict: Optional[Tuple[str, Optional[ast.AST]]] = None

        def put(how: str, v: Optional[ast.AST]) -> None:
            nonlocal verdict
            # several writes in one statement: the later one decides; an unknown one stays unknown unless the entry is
            # overwritten / the local re-bound afterwards
            verdict = (how, v)

        if n.kind == "stmt":
            root: Optional[ast.AST] = a
        else:
            root = n.part
        # writes made by calls / walrus inside the evaluated expression (before the statement's own targets are bound)
        if root is not None:
            for x in walk_no_nested(root):
                if isinstance(x, ast.NamedExpr) and is_me(x.target):
                    put("unknown", None)
                elif isinstance(x, ast.Call) and isinstance(x.func, ast.Attribute) and is_me(x.func.value):
                    m = x.func.attr
                    if m == "update":
                        found: Optional[ast.AST] = None
                        opaque = False
                        for arg in x.args:
                            if isinstance(arg, ast.Dict) and all(isinstance(k, ast.Constant) for k in arg.keys):
                                for k, v in zip(arg.keys, arg.values):
                                    if k.value == key:  # type: ignore[union-attr]
                                        found = v
                            else:
                                opaque, found = True, None
                        for kw in x.keywords:
                            if kw.arg is None:
                                opaque, found = True, None
                            elif kw.arg == key:
                                found = kw.value
                        if found is not None:
                            put("store", found)
                        elif opaque:
                            put("unknown", None)
                    elif m == "__setitem__" and len(x.args) == 2:
                        if isinstance(x.args[0], ast.Constant):
                            if x.args[0].value == key:
                                put("store", x.args[1])
                        else:
                            put("unknown", None)
                    elif m in ("setdefault", "pop", "__delitem__"):
                        if not (x.args and isinstance(x.args[0], ast.Constant) and x.args[0].value != key):
                            put("unknown", None)
                    elif m in ("clear", "popitem", "__ior__"):
                        put("unknown", None)
        if n.kind == "stmt" and isinstance(a, (ast.Assign, ast.AnnAssign)) and getattr(a, "value", None) is not None:
            for t in (a.targets if isinstance(a, ast.Assign) else [a.target]):
                if is_me(t):
                    put("bind", a.value)
                elif isinstance(t, ast.Subscript) and is_me(t.value):
                    if isinstance(t.slice, ast.Constant):
                        if t.slice.value == key:
                            put("store", a.value)
                    else:
                        put("unknown", None)
                elif isinstance(t, (ast.Tuple, ast.List, ast.Starred)) and any(is_me(x) or (isinstance(x, ast.Subscript) and is_me(x.value)) for x in ast.walk(t)):
                    put("unknown", None)
        elif n.kind == "stmt" and isinstance(a, ast.AugAssign):
            if is_me(a.target) or (isinstance(a.target, ast.Subscript) and is_me(a.target.value) and not (isinstance(a.target.slice, ast.Constant) and a.target.slice.value != key)):
                put("unknown", None)
        elif n.kind == "stmt" and isinstance(a, ast.Delete):
            for t in a.targets:
                if is_me(t) or (isinstance(t, ast.Subscript) and is_me(t.value) and not (isinstance(t.slice, ast.Constant) and t.slice.value != key)):
                    put("unknown", None)
        elif n.kind == "for" and isinstance(a, (ast.For, ast.AsyncFor)) and mentions(a.target):
            put("unknown", None)
        elif n.kind == "with" and isinstance(a, (ast.With, ast.AsyncWith)) and any(it.optional_vars is not None and mentions(it.optional_vars) for it in a.items):
            put("unknown", None)
        elif n.kind == "except" and isinstance(a, ast.ExceptHandler) and a.name == name:
            put("unknown", None)
        if verdict is not None:
            out[n.id] = (verdict[0], verdict[1], a)
    cache[(name, key)] = out
    return out


def _enclosing_stmt(fn: ast.AST, node: ast.AST) -> ast.AST:
    cur = node
    while not isinstance(cur, ast.stmt):
        p = parent(cur)
        if p is None or p is fn:
            break
        cur = p
    return cur


def _key_vars(fn: ast.AST) -> Set[str]:
    """Locals that range over the keys of a mapping."""
    out: Set[str] = set()
    for g in ast.walk(fn):
        if isinstance(g, (ast.comprehension, ast.For)):
            it, tg = g.iter, g.target
            if isinstance(it, ast.Call) and call_attr(it) in ("sorted", "list", "tuple") and it.args:
                it = it.args[0]
            if isinstance(it, ast.Call) and call_attr(it) == "items" and isinstance(tg, ast.Tuple) and tg.elts and isinstance(tg.elts[0], ast.Name):
                out.add(tg.elts[0].id)
            elif isinstance(tg, ast.Name) and (isinstance(it, ast.Name) or (isinstance(it, ast.Call) and call_attr(it) == "keys")):
                out.add(tg.id)
    return out


def _module_strings(mod: Module, e: ast.AST, depth: int = 0) -> Set[str]:
    """String constants of *e*, module-level names in it resolved to the strings of their definitions."""
    out: Set[str] = set()
    for x in ast.walk(e):
        if isinstance(x, ast.Constant) and isinstance(x.value, str):
            out.add(x.value)
        elif isinstance(x, ast.Name) and depth < 3:
            for st in mod.tree.body:
                tgts = st.targets if isinstance(st, ast.Assign) else [st.target] if isinstance(st, ast.AnnAssign) and st.value is not None else []
                if any(isinstance(t, ast.Name) and t.id == x.id for t in tgts):
                    out |= _module_strings(mod, st.value, depth + 1)
    return out


def _dropped_keys(mod: Module, fn: ast.AST) -> Set[str]:
    """Key spellings that a comparison with a key variable, a `pop` or a `del` in *fn* (nested defs included) names."""
    dropped: Set[str] = set()
    kv = _key_vars(fn)
    for c in ast.walk(fn):
        if isinstance(c, ast.Compare):
            sides = [c.left] + list(c.comparators)
            for i, s in enumerate(sides):
                core = s.args[0] if isinstance(s, ast.Call) and call_attr(s) == "str" and s.args else s
                if isinstance(core, ast.Name) and core.id in kv:
                    for j, o in enumerate(sides):
                        if j != i:
                            dropped |= _module_strings(mod, o)
        elif isinstance(c, ast.Call) and call_attr(c) == "pop" and c.args and isinstance(c.args[0], ast.Constant) and isinstance(c.args[0].value, str):
            dropped.add(c.args[0].value)
        elif isinstance(c, ast.Delete):
            for t in c.targets:
                if isinstance(t, ast.Subscript) and isinstance(t.slice, ast.Constant) and isinstance(t.slice.value, str):
                    dropped.add(t.slice.value)
    return dropped


def _params_of(fn: ast.AST) -> List[str]:
    return [a.arg for a in fn.args.posonlyargs + fn.args.args + fn.args.kwonlyargs]


def _node_lists(cps: ast.AST, spec_param: str) -> List[Tuple[bool, ast.AST, Optional[str], ast.AST]]:
    """Per-node structures built over the nodes of the spec: (complete and in order, element expression,
    accumulator local or None, construct)."""
    out: List[Tuple[bool, ast.AST, Optional[str], ast.AST]] = []

    def nodes_iter(it: ast.AST) -> bool:
        fl = flow(cps, it)
        return any(isinstance(x, ast.Name) and x.id == spec_param for x in fl) and any(isinstance(x, ast.Constant) and x.value == "nodes" for x in fl)

    def unordered(it: ast.AST) -> bool:
        fl = flow(cps, it)
        return bool(calls_to(fl, *REORDERING)) or any(isinstance(x, ast.Subscript) and isinstance(x.slice, ast.Slice) for x in fl)

    for n in _fn_stmts(cps):
        if isinstance(n, (ast.ListComp, ast.GeneratorExp)) and nodes_iter(n.generators[0].iter):
            ok = len(n.generators) == 1 and not n.generators[0].ifs and not unordered(n.generators[0].iter)
            out.append((ok, n.elt, None, n))
        elif isinstance(n, ast.For) and nodes_iter(n.iter):
            appends = [c for c in calls_in(n) if call_attr(c) == "append" and c.args and isinstance(c.func, ast.Attribute) and isinstance(c.func.value, ast.Name)]
            for c in appends:
                unconditional = parent(stmt_of(c)) is n and stmt_of(c) in n.body
                ok = unconditional and not n.orelse and not any(isinstance(x, (ast.Continue, ast.Break, ast.Return)) for x in ast.walk(n)) and not unordered(n.iter)
                out.append((ok, c.args[0], c.func.value.id, n))  # type: ignore[union-attr]
    return out


def canonical_node_builder(repo: Repo) -> Tuple[str, ast.AST, Dict[str, List[ast.AST]], Optional[str]]:
    """(qualname, normal form, {key: values} of the mapping, name of the node configuration there) of the function
    that writes the canonical node - the mapping with the processor reference that is serialised into the name of
    uuid5 -, found by role through the call graph from the public entry point `build_canonical_spec`: the
    innermost function of the module that returns a mapping with 'processor_ref', whatever it is called; when no
    function returns it (the record is written where it is hashed), the hashing function itself."""
    cached = repo.__dict__.get("_c05_canon_builder")
    if cached is not None:
        return cached
    mod = repo.module(GRAPH)
    root = repo.func(GRAPH, "build_canonical_spec")
    hits: List[Tuple[int, str, ast.AST, Dict[str, List[ast.AST]]]] = []
    for m, n, path in repo.call_graph_closure([(mod, root)]).values():
        if m.rel != GRAPH or not isinstance(n, FuncNode) or n is root:
            continue
        qn = qualname_of(n)
        nf = NF(repo, GRAPH, qn)
        km = returned_mapping(repo, GRAPH, nf)
        if "processor_ref" in km:
            hits.append((len(path), qn, nf, km))
    if hits:
        deepest = max(h[0] for h in hits)
        best = [h for h in hits if h[0] == deepest]
        if len(best) != 1:
            raise AnalysisError(f"canonical node: {len(best)} functions return a mapping with 'processor_ref' ({', '.join(h[1] for h in best)})")
        _d, qn, nf, km = best[0]
        res = (qn, nf, km, (_params_of(nf) or [None])[0])
    else:
        bcs = NF(repo, GRAPH, "build_canonical_spec")
        _uu, objs = _hashed_node_objects(bcs)
        km = {}
        for o in objs:
            for k, vs in mapping_items(repo, GRAPH, bcs, o).items():
                km.setdefault(k, []).extend(vs)
        if "processor_ref" not in km:
            raise AnalysisError("canonical node: no mapping with 'processor_ref' is hashed into the node uuid or returned on the way there")
        # the node configuration: the mapping whose 'parameters' are resolved into the hashed parameter map
        cfgs = {dotted_name(x.func.value) if isinstance(x, ast.Call) else dotted_name(x.value) for c in calls_to(_fn_stmts(bcs), "resolve_parameters") for a in c.args[:1] for x in ast.walk(a) if (isinstance(x, ast.Call) and call_attr(x) == "get" and isinstance(x.func, ast.Attribute) and x.args and isinstance(x.args[0], ast.Constant) and x.args[0].value == "parameters") or (isinstance(x, ast.Subscript) and isinstance(x.slice, ast.Constant) and x.slice.value == "parameters")}
        cfgs.discard(None)
        res = ("build_canonical_spec", bcs, km, cfgs.pop() if len(cfgs) == 1 else None)
    repo.__dict__["_c05_canon_builder"] = res
    return res


def _pairs_unpacked(fn: ast.AST) -> ast.AST:
    """A copy of the config roll-up in which a comprehension that reads its element - a (uuid, semantic id) pair, by the
    contract of the parameter - as `p[0]` and `p[1]` (both, nothing else of `p`) unpacks it in the target instead:
    `{p[0]: p[1] for p in pairs}` -> `{p__0: p__1 for (p__0, p__1) in pairs}`.  Same value; `derives_whole` takes an
    element subscript for "a part of the element", which is right for everything but a pair read whole."""
    import copy

    fn = copy.deepcopy(fn)
    fn.__dict__.pop("_c05_nodes", None)
    for comp in [n for n in ast.walk(fn) if isinstance(n, (ast.ListComp, ast.SetComp, ast.GeneratorExp, ast.DictComp))]:
        if len(comp.generators) != 1 or not isinstance(comp.generators[0].target, ast.Name):
            continue
        g = comp.generators[0]
        t = g.target.id
        body = ([comp.key, comp.value] if isinstance(comp, ast.DictComp) else [comp.elt]) + list(g.ifs)
        subs = [x for b in body for x in ast.walk(b) if isinstance(x, ast.Subscript) and isinstance(x.value, ast.Name) and x.value.id == t and isinstance(x.slice, ast.Constant) and x.slice.value in (0, 1)]
        uses = [x for b in body for x in ast.walk(b) if isinstance(x, ast.Name) and x.id == t]
        if len(uses) != len(subs) or {x.slice.value for x in subs} != {0, 1}:
            continue

        class _Sub(ast.NodeTransformer):
            def visit_Subscript(self, node: ast.Subscript) -> ast.AST:
                if any(node is x for x in subs):
                    return ast.copy_location(ast.Name(id=f"{t}__{node.slice.value}", ctx=ast.Load()), node)
                return self.generic_visit(node)

        if isinstance(comp, ast.DictComp):
            comp.key, comp.value = _Sub().visit(comp.key), _Sub().visit(comp.value)
        else:
            comp.elt = _Sub().visit(comp.elt)
        g.ifs = [_Sub().visit(x) for x in g.ifs]
        g.target = ast.copy_location(ast.Tuple(elts=[ast.Name(id=f"{t}__0", ctx=ast.Store()), ast.Name(id=f"{t}__1", ctx=ast.Store())], ctx=ast.Store()), g.target)
    return fn


def field_coverage(repo: Repo, R: Report) -> None:
    r = R.rule("C05-D1-field-coverage", "every identity-bearing field reaches the bytes that are hashed: node uuid <- whole canonical node (role, processor_ref, full-depth params, ports, declaration index); node semantic id <- whole sweep metadata minus exactly the UI-only keys; pipeline semantic id <- node uuid and node semantic id of every node in order; config id <- every (uuid, semantic id) pair; pipeline id <- whole canonical graph", 16)
    # --- node uuid: the mapping serialised into the name of uuid5 is the complete canonical node
    cn_q = canonical_node_builder(repo)[0]  # anchor, by role
    bcs = NF(repo, GRAPH, "build_canonical_spec")
    uu, objs = _hashed_node_objects(bcs)
    keys: Dict[str, List[ast.AST]] = {}
    for i, o in enumerate(objs):
        ki = mapping_items(repo, GRAPH, bcs, o)
        keys = ki if i == 0 else {k: v for k, v in keys.items() if k in ki}
    for k in sorted(CANON_KEYS):
        R.check(k in keys, r, GRAPH, cn_q, f"canonical node carries {k!r}", f"field {k!r} no longer enters the canonical node: two configurations differing only there get the same node uuid", bcs.lineno)
    ok = bool(uu) and bool(objs) and CANON_KEYS <= set(keys)
    R.check(ok, r, GRAPH, "build_canonical_spec", "node_uuid = uuid5(ns, json.dumps(<whole canonical node>))", "the node uuid is not derived from the complete canonical node", bcs.lineno)
    g = CFG(bcs, may_raise=lambda p: set())
    ok = bool(objs)
    for o in objs:
        v = _effective_value(bcs, g, o, "params", _enclosing_stmt(bcs, o), 0, repo, GRAPH)
        ok = ok and isinstance(v, ast.Call) and call_attr(v) == "descriptor_to_json" and len(v.args) == 1 and any(call_attr(c) == "resolve_parameters" for c in calls_to(flow(bcs, v.args[0]), "resolve_parameters"))
    R.check(ok, r, GRAPH, "build_canonical_spec", "canon['params'] = descriptor_to_json(params) before hashing", "the effective parameter map (full depth, as given) is not what gets hashed into the node uuid", bcs.lineno)
    # --- pipeline id
    cpi = NF(repo, GRAPH, "compute_pipeline_id")
    roots = set(_params_of(cpi)[:1])
    rets = [x.value for x in walk_no_nested(cpi) if isinstance(x, ast.Return) and x.value is not None]
    d = [c for rv in rets for c in calls_to(flow(cpi, rv), "dumps")]
    ok = bool(d) and all(c.args and derives_whole(repo, GRAPH, cpi, c.args[0], roots) for c in d)
    R.check(ok, r, GRAPH, "compute_pipeline_id", "json.dumps(<whole canonical spec>)", "pipeline id hashes only a part of the canonical graph", cpi.lineno)
    # --- node semantic id: only UI-only keys (top level) and the raw expression text (by position) are dropped
    sem = repo.module(SEM)
    cns = NF(repo, SEM, "compute_node_semantic_id")
    inner = [n for n in ast.walk(cns) if isinstance(n, FuncNode) and n is not cns]
    helpers: List[Tuple[str, ast.AST]] = [(qualname_of(n), n) for n in inner]
    for c in ast.walk(cns):
        if isinstance(c, ast.Call) and isinstance(c.func, ast.Name):
            t = sem.defs.get(c.func.id)
            if isinstance(t, FuncNode) and all(t.name != h.name for _q, h in helpers):
                helpers.append((c.func.id, t))
    bodies: List[Tuple[str, ast.AST]] = [("compute_node_semantic_id", cns)]
    for qn, h0 in helpers:
        bodies.append((qn, h0 if any(h0 is n for n in inner) else NF(repo, SEM, qn)))
    dropped: Set[str] = set()
    for _qn, h in bodies:
        dropped |= _dropped_keys(sem, h)
    ui_dropped = dropped - CANON_DROP_ALLOWED
    R.check(ui_dropped <= UI_ONLY_ALLOWED, r, SEM, "<module>", f"_UI_ONLY_KEYS = {sorted(ui_dropped)}", f"keys {sorted(ui_dropped - UI_ONLY_ALLOWED)} are stripped before hashing the node semantic id: differences there no longer change any id", cns.lineno)
    R.check(dropped <= CANON_DROP_ALLOWED | UI_ONLY_ALLOWED, r, SEM, "compute_node_semantic_id", f"keys dropped by canonicalisation: {sorted(dropped)}", f"{sorted(dropped - CANON_DROP_ALLOWED - UI_ONLY_ALLOWED)} are dropped before hashing", cns.lineno)
    # a key may be dropped by *position* only: a filter on the key's spelling inside a function that recurses over
    # the whole metadata removes user-chosen names (a sweep variable or parameter that happens to be called like the
    # dropped field) at every depth, and with them their domains / expressions
    n_filters = 0
    for qn, h in bodies:
        is_outer = h is cns
        params = _params_of(h)
        rec_calls = [] if is_outer else [c for c in ast.walk(h) if isinstance(c, ast.Call) and isinstance(c.func, ast.Name) and c.func.id == h.name]
        varying: Set[str] = set()  # parameters whose value changes along the recursion (a depth / path argument)
        for c in rec_calls:
            bound = dict(zip(params, c.args))
            bound.update({k.arg: k.value for k in c.keywords if k.arg})
            for pn, v in bound.items():
                if not (isinstance(v, ast.Name) and v.id == pn) and pn != params[0]:
                    varying.add(pn)
        # locals computed from a varying parameter vary too
        grew = True
        while grew:
            grew = False
            for n in walk_no_nested(h):
                if isinstance(n, ast.Assign) and len(n.targets) == 1 and isinstance(n.targets[0], ast.Name) and n.targets[0].id not in varying and any(isinstance(x, ast.Name) and x.id in varying for x in ast.walk(n.value)):
                    varying.add(n.targets[0].id)
                    grew = True
        kv = _key_vars(h)
        tests: List[ast.AST] = []
        for n in (walk_no_nested(h) if is_outer else ast.walk(h)):
            if isinstance(n, ast.comprehension):
                tests.extend(n.ifs)
            elif isinstance(n, (ast.If, ast.IfExp)):
                tests.append(n.test)
        for t in tests:
            if not _is_key_filter(t, kv):
                continue
            n_filters += 1
            names = {x.id for x in ast.walk(t) if isinstance(x, ast.Name)}
            positional = not rec_calls or bool(names & varying)
            R.check(positional, r, SEM, qn, f"key filter `{_u(t)[:80]}`", "a key is dropped by its spelling at every depth of the metadata (recursive traversal without a position test): a sweep variable or parameter with that name - and its domain / expression - never reaches the node semantic id", t.lineno)
    if n_filters == 0:
        raise AnalysisError("compute_node_semantic_id: no key filter found (UI-only / raw-expression stripping vanished)")
    roots = set(_params_of(cns)[:1])
    rets = [x.value for x in walk_no_nested(cns) if isinstance(x, ast.Return) and x.value is not None]
    hd = [c for rv in rets for c in calls_to(flow(cns, rv), "dumps")]
    ok = bool(hd) and all(c.args and derives_whole(repo, SEM, cns, c.args[0], roots) for c in hd)
    R.check(ok, r, SEM, "compute_node_semantic_id", "hash(json.dumps(canonicalise(_strip_ui_only(meta))))", "node semantic id does not hash the whole (UI-stripped) metadata", cns.lineno)
    # --- pipeline semantic id
    cps = NF(repo, SEM, "compute_pipeline_semantic_id")
    param = _params_of(cps)[0]
    rets = [x.value for x in walk_no_nested(cps) if isinstance(x, ast.Return) and x.value is not None]
    hashed_flow = [x for rv in rets for c in calls_to(flow(cps, rv), "dumps") if c.args for x in flow(cps, c.args[0])]
    hashed_ids = {id(x) for x in hashed_flow}
    hashed_names = {x.id for x in hashed_flow if isinstance(x, ast.Name)}
    lists = [(ok_, elt, acc, n) for ok_, elt, acc, n in _node_lists(cps, param) if (id(n) in hashed_ids if acc is None else acc in hashed_names)]
    ok = bool(lists) and all(t[0] for t in lists)
    per_node: Dict[str, List[ast.AST]] = {}
    for i, (_ok, elt, _acc, _n) in enumerate(lists):
        pi = mapping_items(repo, SEM, cps, elt)
        per_node = pi if i == 0 else {k: v for k, v in per_node.items() if k in pi}
    R.check(ok, r, SEM, "compute_pipeline_semantic_id", "per-node list over all canonical nodes, in order, unfiltered", "nodes are filtered / reordered before hashing: number or order of nodes can change without changing the semantic id", cps.lineno)
    R.check("node_uuid" in per_node, r, SEM, "compute_pipeline_semantic_id", "per-node structure contains node_uuid", "node uuid (processor, parameters, position) does not reach the pipeline semantic id", cps.lineno)
    R.check("node_semantic_id" in per_node, r, SEM, "compute_pipeline_semantic_id", "per-node structure contains node_semantic_id", "the sweep definition (wrapped processor, expressions, domains, mode, broadcast, collection) never reaches the pipeline semantic id: generated sweep classes share one processor_ref", cps.lineno)
    uv = per_node.get("node_uuid") or []
    R.check(bool(uv) and all(reads_key(flow(cps, v), "node_uuid") for v in uv), r, SEM, "compute_pipeline_semantic_id", "node_uuid = node['node_uuid']", "the rolled-up node uuid is not the canonical node's uuid", cps.lineno)
    nsv = per_node.get("node_semantic_id") or []
    ok = bool(nsv) and all(any(c.args and reads_key(flow(cps, c.args[0]), "preprocessor_metadata") for c in calls_to(flow(cps, v), "compute_node_semantic_id")) for v in nsv)
    R.check(ok, r, SEM, "compute_pipeline_semantic_id", "node_semantic_id = compute_node_semantic_id(node['preprocessor_metadata'])", "the rolled-up node semantic id is not computed from the node's preprocessor metadata", cps.lineno)
    R.check(bool(lists), r, SEM, "compute_pipeline_semantic_id", "hash(json.dumps(pipeline_structure))", "the per-node structure is not what gets hashed", cps.lineno)
    # --- config id
    cpc = _pairs_unpacked(NF(repo, SEM, "compute_pipeline_config_id"))
    roots = set(_params_of(cpc)[:1])
    rets = [x.value for x in walk_no_nested(cpc) if isinstance(x, ast.Return) and x.value is not None]
    hs = [c for rv in rets for c in calls_to(flow(cpc, rv), "dumps", "_sha256_json")]
    ok = bool(hs) and all(c.args and derives_whole(repo, SEM, cpc, c.args[0], roots) for c in hs)
    R.check(ok, r, SEM, "compute_pipeline_config_id", "hash of all (uuid, semantic id) pairs", "config id does not cover every pair", cpc.lineno)


# ---------------------------------------------------------------------------------------------------------
# D1b  the parameter map is serialised value by value, unchanged
# ---------------------------------------------------------------------------------------------------------

# conversions that map distinct values to one value (numeric narrowing / rounding, text folding, summaries)
NARROWING_FUNCS = {
    "float", "int", "round", "bool", "abs", "hash", "len", "type", "complex", "str", "repr", "format", "ascii", "bytes", "ord", "chr",
    "floor", "ceil", "trunc", "fsum", "sum", "min", "max", "any", "all", "id", "bin", "hex", "oct", "divmod", "pow", "set", "frozenset",
    "sorted", "reversed", "float16", "float32", "float64", "int8", "int16", "int32", "int64", "Decimal", "Fraction", "isoformat", "basename", "normpath",
    "lower", "upper", "casefold", "strip", "lstrip", "rstrip", "title", "capitalize", "swapcase", "split", "rsplit", "replace", "join", "encode", "decode",
    "keys", "values", "get", "pop", "hexdigest", "digest", "sha256", "md5", "sha1", "__class__", "__name__", "__qualname__",
}
# calls that hand back their (first) argument / receiver with every element and every value kept
LOSSLESS_FUNCS = {"dict", "list", "tuple", "deepcopy", "copy", "OrderedDict", "cast"}
LOSSLESS_METHODS = {"copy", "items", "tolist", "item"}


class _Conv:
    """Verdict on one expression of a converter: ok / lossy (with the offending node) / unknown."""

    def __init__(self) -> None:
        self.lossy: List[Tuple[ast.AST, str]] = []
        self.unknown: List[ast.AST] = []
        self.kept = 0  # places where the value itself (a leaf, an element, a field) is handed on unchanged


def _mentions(e: ast.AST, names: Set[str]) -> bool:
    return any(isinstance(x, ast.Name) and x.id in names for x in ast.walk(e))


def _conversion(repo: Repo, rel: str, fn: ast.AST, e: Optional[ast.AST], roots: Set[str], out: _Conv, self_names: Set[str], depth: int = 0, _seen: Optional[Set[str]] = None) -> None:
    """Judge how *e* is computed from the value(s) named by *roots* inside *fn*: the value itself, a container
    rebuilt element by element with the same conversion applied to every element, the serialisation of a descriptor
    object over all its fields - or a conversion that folds distinct values together (recorded in *out.lossy*).
    *self_names*: names under which the converter calls itself."""
    _seen = _seen if _seen is not None else set()
    if e is None or depth > 8:
        out.unknown.append(e if e is not None else fn)
        return
    rec = lambda x, r=roots: _conversion(repo, rel, fn, x, r, out, self_names, depth + 1, _seen)  # noqa: E731
    if isinstance(e, ast.Name):
        if e.id in roots:
            out.kept += 1
            rebound = [v for v in name_values(fn, e.id)] if e.id in _params_of(fn) else []
            key = f"{id(fn)}:{e.id}"
            if rebound and key not in _seen:
                _seen.add(key)
                for v in rebound:
                    rec(v)
            return
        key = f"{id(fn)}:{e.id}"
        if key in _seen:
            return
        _seen.add(key)
        for v in assigned_value(fn, e.id):  # none: a name of the enclosing scope, no function of the value
            rec(v)
        return
    if not _mentions(e, roots) and not any(isinstance(x, ast.Name) and assigned_value(fn, x.id) for x in ast.walk(e)):
        return  # no function of the value at all (a constant tag)
    if isinstance(e, (ast.Attribute, ast.Subscript)) and _u(e) in roots:
        out.kept += 1
        return
    if isinstance(e, ast.IfExp):
        rec(e.body)
        rec(e.orelse)
        return
    if isinstance(e, ast.NamedExpr):
        rec(e.value)
        return
    if isinstance(e, (ast.List, ast.Tuple)):
        for x in e.elts:
            rec(x.value if isinstance(x, ast.Starred) else x)
        return
    if isinstance(e, ast.Dict):
        # a mapping written out from the attributes of the value (`{'class': obj.class_path, ...}`): the serialisation
        # of a descriptor object in place - every annotated field of its class has to be there
        attrs = {x.attr for x in flow(fn, e) if isinstance(x, ast.Attribute) and isinstance(x.value, ast.Name) and x.value.id in roots}
        inner_roots = roots
        if attrs:
            owners = [(c.name, fs) for c in ast.walk(repo.module(rel).tree) if isinstance(c, ast.ClassDef) for fs in [[st.target.id for st in c.body if isinstance(st, ast.AnnAssign) and isinstance(st.target, ast.Name)]] if fs and attrs <= set(fs)]
            if len(owners) == 1:
                cname, fs = owners[0]
                for f in fs:
                    if f not in attrs:
                        out.lossy.append((e, f"field `{f}` of {cname} never reaches its serialised form"))
                inner_roots = roots | {f"{rt}.{f}" for rt in roots for f in fs}
        for k, v in zip(e.keys, e.values):
            if k is not None:
                rec(k, inner_roots)
            rec(v, inner_roots)
        return
    if isinstance(e, (ast.ListComp, ast.GeneratorExp, ast.DictComp)):
        if len(e.generators) != 1:
            out.unknown.append(e)
            return
        g = e.generators[0]
        if g.ifs:
            out.lossy.append((g.ifs[0], "elements are filtered out"))
            return
        it = g.iter
        # the order of a mapping's items is immaterial (the hashed text is dumped with sorted keys); the order of a list is not
        while isinstance(it, ast.Call) and ((call_attr(it) in LOSSLESS_FUNCS and it.args) or (isinstance(it.func, ast.Attribute) and call_attr(it) in LOSSLESS_METHODS and not it.args) or (isinstance(e, ast.DictComp) and call_attr(it) == "sorted" and len(it.args) == 1)):
            it = it.args[-1 if call_attr(it) == "cast" else 0] if it.args else it.func.value  # type: ignore[union-attr]
        inner = _Conv()
        _conversion(repo, rel, fn, it, roots, inner, self_names, depth + 1, _seen)
        if inner.lossy or inner.unknown:
            out.lossy.extend((n, "the container is not traversed completely and in order: " + w) for n, w in inner.lossy)
            out.unknown.extend(inner.unknown)
            return
        tnames = {x.id for x in ast.walk(g.target) if isinstance(x, ast.Name)}
        body = [e.key, e.value] if isinstance(e, ast.DictComp) else [e.elt]
        used = {x.id for b in body for x in ast.walk(b) if isinstance(x, ast.Name)}
        if not tnames <= used:
            out.lossy.append((e, f"{sorted(tnames - used)} of every element never reach the result"))
            return
        # `for k in m` with `m[k]` in the body: the element of a mapping traversed by key
        elem_roots = set(tnames)
        if isinstance(g.target, ast.Name) and isinstance(it, ast.Name):
            elem_roots.add(f"{it.id}[{g.target.id}]")
        for b in body:
            _conversion(repo, rel, fn, b, elem_roots, out, self_names, depth + 1, _seen)
        return
    if isinstance(e, ast.Call):
        nm = call_attr(e)
        args = list(e.args) + [k.value for k in e.keywords]
        if isinstance(e.func, ast.Name) and e.func.id in self_names and e.args:
            rec(e.args[0])
            return
        if nm == "map" and len(e.args) == 2 and isinstance(e.args[0], ast.Name) and e.args[0].id in self_names:
            rec(e.args[1])
            return
        if isinstance(e.func, ast.Attribute) and nm in LOSSLESS_METHODS and not e.args:
            rec(e.func.value)
            return
        if nm in LOSSLESS_FUNCS and e.args and not isinstance(e.func, ast.Attribute) or (nm in ("deepcopy", "copy") and e.args):
            rec(e.args[-1] if nm == "cast" else e.args[0])
            return
        if nm in NARROWING_FUNCS:
            out.lossy.append((e, f"`{_u(e)[:60]}` maps distinct values to one"))
            return
        # the serialisation method of a descriptor object: every field of the class reaches the result unchanged
        if isinstance(e.func, ast.Attribute) and not e.args and not e.keywords and _mentions(e.func.value, roots):
            meths = [(qn, d) for qn, d in repo.module(rel).defs.items() if isinstance(d, FuncNode) and d.name == nm and "." in qn]
            if meths:
                for qn, _d in meths:
                    _method_covers_fields(repo, rel, qn, out, self_names, depth)
                return
        hit = _local_callee(repo, rel, fn, e)
        if hit is not None and e.args:
            callee = NF(repo, rel, hit[0])
            ps = _params_of(callee)
            passed = {ps[i] for i, a in enumerate(e.args[: len(ps)]) if _mentions(a, roots) or any(isinstance(x, ast.Name) and assigned_value(fn, x.id) for x in ast.walk(a))}
            for a in e.args:
                rec(a)
            _returns_conversion(repo, rel, callee, passed, out, self_names | ({hit[0]} if hit[0] in self_names else set()), depth + 1)
            return
        out.unknown.append(e)
        return
    if isinstance(e, (ast.BinOp, ast.UnaryOp, ast.Compare, ast.JoinedStr, ast.BoolOp)):
        out.lossy.append((e, f"`{_u(e)[:60]}` is computed from the value instead of the value itself"))
        return
    if isinstance(e, (ast.Subscript, ast.Attribute)):
        out.lossy.append((e, f"`{_u(e)[:60]}` is only a part / an attribute of the value"))
        return
    out.unknown.append(e)


def _returns_conversion(repo: Repo, rel: str, fn: ast.AST, roots: Set[str], out: _Conv, self_names: Set[str], depth: int = 0) -> None:
    rets = [x for x in walk_no_nested(fn) if isinstance(x, ast.Return)]
    if not rets:
        out.unknown.append(fn)
    for r in rets:
        if r.value is None:
            out.unknown.append(r)
        else:
            _conversion(repo, rel, fn, r.value, roots, out, self_names, depth)


def _method_covers_fields(repo: Repo, rel: str, qualname: str, out: _Conv, self_names: Set[str], depth: int) -> None:
    """`obj.<method>()` of a class of the module: the returned value is built from every annotated field of the class,
    each through a lossless conversion."""
    cname, _, _m = qualname.rpartition(".")
    cdef = repo.module(rel).defs.get(cname)
    meth = NF(repo, rel, qualname)
    ps = _params_of(meth)
    if not isinstance(cdef, ast.ClassDef) or not ps:
        out.unknown.append(meth)
        return
    me = ps[0]
    fields = [st.target.id for st in cdef.body if isinstance(st, ast.AnnAssign) and isinstance(st.target, ast.Name)]
    rets = [x.value for x in walk_no_nested(meth) if isinstance(x, ast.Return) and x.value is not None]
    if not rets or not fields:
        out.unknown.append(meth)
        return
    for rv in rets:
        fl = flow(meth, rv)
        for f in fields:
            if not reads_attr(fl, f, me):
                out.lossy.append((rv, f"field `{f}` of {cname} never reaches its serialised form"))
        _conversion(repo, rel, meth, rv, {f"{me}.{f}" for f in fields} | {me}, out, self_names, depth + 1)


def params_lossless(repo: Repo, R: Report) -> None:
    r = R.rule("C05-D1b-params-serialised-unchanged", "the function that turns the effective parameter map into the JSON that is hashed into the node uuid keeps every value: a leaf is returned as it is, a container is rebuilt element by element (unfiltered, in order) with the same conversion, a descriptor object is serialised over all its fields; no value is passed through a conversion that folds distinct values together (numeric narrowing / rounding, text folding, truncation)", 3)
    bcs = NF(repo, GRAPH, "build_canonical_spec")
    _uu, objs = _hashed_node_objects(bcs)
    g = CFG(bcs, may_raise=lambda p: set())
    gmod = repo.module(GRAPH)
    targets: Dict[Tuple[str, str], ast.Call] = {}
    for o in objs:
        v = _effective_value(bcs, g, o, "params", _enclosing_stmt(bcs, o), 0, repo, GRAPH)
        if not isinstance(v, ast.Call):
            continue
        nm = dotted_name(v.func) or ""
        hit = repo.resolve_dotted(gmod.imports[nm.split(".")[0]] + nm[len(nm.split(".")[0]):]) if nm.split(".")[0] in gmod.imports else None
        if hit is None and isinstance(gmod.defs.get(nm), FuncNode):
            hit = (gmod, gmod.defs[nm])
        if hit is not None and isinstance(hit[1], FuncNode):
            targets[(hit[0].rel, qualname_of(hit[1]))] = v
    if not targets:
        raise AnalysisError("the converter of the hashed parameter map (descriptor_to_json) could not be resolved")
    for (rel, qn), call in sorted(targets.items()):
        conv = NF(repo, rel, qn)
        ps = _params_of(conv)
        if not ps:
            raise AnalysisError(f"{qn}: no parameter")
        out = _Conv()
        _returns_conversion(repo, rel, conv, {ps[0]}, out, {conv.name})
        for node, why in out.lossy:
            R.violation(r, rel, qn, norm(stmt_of(node))[:110] if parent(node) is not None else _u(node)[:110], f"a parameter value is changed on its way into the node uuid: {why}; two configurations that differ only in such a value (at any depth of the parameter map) get the same node uuid, semantic id and config id", getattr(node, "lineno", conv.lineno))
        if out.unknown and not out.lossy:
            raise AnalysisError(f"{qn}: conversion of unknown shape `{_u(out.unknown[0])[:80]}`")
        if not out.lossy:
            for _i in range(out.kept):
                R.ok(r, rel, qn, f"{qn}: leaf / element / descriptor field handed on unchanged", "", conv.lineno)


# ---------------------------------------------------------------------------------------------------------
# D2
# ---------------------------------------------------------------------------------------------------------

def _values_under_key(fn: ast.AST, key: str) -> List[ast.AST]:
    """Every expression written under the constant mapping key *key* in *fn*: `m[key] = v`, `{..., key: v}`
    (also with `**` spreads), `dict(m, key=v)`, `m.update({key: v})` / `m.update(key=v)`, `m.setdefault(key, v)`."""
    out: List[ast.AST] = []
    for n in ast.walk(fn):
        if isinstance(n, ast.Assign):
            if any(isinstance(t, ast.Subscript) and isinstance(t.slice, ast.Constant) and t.slice.value == key for t in n.targets):
                out.append(n.value)
        elif isinstance(n, ast.Dict):
            for k, v in zip(n.keys, n.values):
                if isinstance(k, ast.Constant) and k.value == key:
                    out.append(v)
        elif isinstance(n, ast.Call):
            if call_attr(n) in ("dict", "update"):
                out.extend(k.value for k in n.keywords if k.arg == key)
            if call_attr(n) == "setdefault" and len(n.args) == 2 and isinstance(n.args[0], ast.Constant) and n.args[0].value == key:
                out.append(n.args[1])
    return out


def _is_type_test(e: ast.AST) -> Optional[bool]:
    """atom for edges_guaranteeing: `isinstance(<x>, type)`."""
    if isinstance(e, ast.Call) and call_attr(e) == "isinstance" and len(e.args) == 2:
        t = e.args[1]
        if isinstance(t, ast.Name) and t.id == "type":
            return True
    return None


def _under_type_guard(node: ast.AST, fn: ast.AST) -> bool:
    child = node
    for a in ancestors(node):
        if a is fn:
            break
        if isinstance(a, ast.If):
            branch = "T" if any(child is s for s in a.body) else "F" if any(child is s for s in a.orelse) else None
            if branch is not None and branch in edges_guaranteeing(a.test, _is_type_test):
                return True
        child = a
    return False


def _processor_ref_rewrites(cn: ast.AST, e: ast.AST, cfg_param: str, guarded: bool, seen: Set[str]) -> List[ast.AST]:
    """Expressions through which the hashed processor_ref is something else than the configured value as written
    (a string stays itself; a class becomes module.qualname)."""
    if isinstance(e, ast.IfExp):
        g = edges_guaranteeing(e.test, _is_type_test)
        return _processor_ref_rewrites(cn, e.body, cfg_param, guarded or "T" in g, seen) + _processor_ref_rewrites(cn, e.orelse, cfg_param, guarded or "F" in g, seen)
    if isinstance(e, ast.BoolOp):
        return [x for v in e.values for x in _processor_ref_rewrites(cn, v, cfg_param, guarded, seen)]
    if isinstance(e, ast.Constant):
        return []
    if isinstance(e, ast.Call) and call_attr(e) == "get" and isinstance(e.func, ast.Attribute) and dotted_name(e.func.value) == cfg_param:
        return []
    if isinstance(e, ast.Subscript) and dotted_name(e.value) == cfg_param and isinstance(e.slice, ast.Constant):
        return []
    if isinstance(e, ast.JoinedStr):
        fl = list(ast.walk(e))
        if guarded and reads_attr(fl, "__qualname__") and reads_attr(fl, "__module__"):
            return []
        return [e]
    if isinstance(e, ast.Name):
        if e.id in seen:
            return []
        seen.add(e.id)
        out: List[ast.AST] = []
        defs = [n for n in walk_no_nested(cn) if isinstance(n, (ast.Assign, ast.AnnAssign)) and any(isinstance(t, ast.Name) and t.id == e.id for t in (n.targets if isinstance(n, ast.Assign) else [n.target])) and n.value is not None]
        if not defs:
            return [e]
        for d in defs:
            out.extend(_processor_ref_rewrites(cn, d.value, cfg_param, _under_type_guard(d, cn), seen))
        return out
    return [e]


# metadata entry -> the parameter(s) of the factory's public entry point that carry this part of the sweep definition
_DEFINITION_PARAMS = {
    "element_ref": ("element",), "param_expressions": ("parametric_expressions",), "variables": ("vars",), "mode": ("mode",),
    "broadcast": ("broadcast",), "collection": ("collection_output",), "dependencies": ("element", "parametric_expressions"),
}


def _attrs_read_of(nodes: Iterable[ast.AST], obj: Optional[str]) -> Set[str]:
    """Names of the attributes read from the local *obj* in *nodes*: `obj.a`, `getattr(obj, 'a', ..)`."""
    out: Set[str] = set()
    for x in nodes:
        if isinstance(x, ast.Attribute) and isinstance(x.value, ast.Name) and x.value.id == obj:
            out.add(x.attr)
        elif isinstance(x, ast.Call) and call_attr(x) == "getattr" and len(x.args) >= 2 and isinstance(x.args[0], ast.Name) and x.args[0].id == obj and isinstance(x.args[1], ast.Constant) and isinstance(x.args[1].value, str):
            out.add(x.args[1].value)
    return out


def _admits_none(fn: ast.AST, param: str) -> bool:
    """The annotation of the parameter *param* of *fn* admits None (`X | None`, `Optional[X]`)."""
    a = fn.args
    ann = next((x.annotation for x in a.posonlyargs + a.args + a.kwonlyargs if x.arg == param), None)
    if ann is None:
        return False
    return any((isinstance(x, ast.Constant) and x.value is None) or (isinstance(x, (ast.Name, ast.Attribute)) and (dotted_name(x) or "").rpartition(".")[2] == "Optional") for x in ast.walk(ann))


def _sweep_factory(repo: Repo) -> Tuple[ast.AST, List[ast.AST], ast.AST, str, str, List[ast.AST]]:
    """(entry point, maker functions, the function that builds the published sweep definition, its qualified name, its
    name as called, the values the generated classes store under 'preprocessor') of the sweep factory module."""
    create = repo.func(SWEEP, "ParametricSweepFactory.create")
    smod = repo.module(SWEEP)
    # the functions of the factory module that the public entry point runs (itself, helpers it was split into)
    makers = [n for m, n, _p in repo.call_graph_closure([(smod, create)]).values() if m.rel == SWEEP and isinstance(n, FuncNode)]
    makers = [n for n in makers if not any(n is not o and any(x is n for x in ast.walk(o)) for o in makers)]  # outermost only
    # the function that builds the published sweep definition, by role: what the generated classes store under 'preprocessor'
    hook_vals = [v for mk in makers for v in _values_under_key(mk, "preprocessor") if isinstance(v, ast.Call)]
    builders = {call_attr(v) for v in hook_vals}
    if len(builders) != 1:
        raise AnalysisError("_preprocessor_metadata not found")
    bname = builders.pop()
    # ... a def nested in a maker, a module-level function, or a method of a class of the module (called through the class / cls)
    pm0 = next((n for mk in makers for n in ast.walk(mk) if isinstance(n, FuncNode) and n.name == bname), None) or smod.defs.get(bname)
    if not isinstance(pm0, FuncNode):
        owners = {dotted_name(v.func.value) for v in hook_vals if isinstance(v.func, ast.Attribute)}
        cands = [n for qn, n in smod.defs.items() if isinstance(n, FuncNode) and n.name == bname and "." in qn and (qn.rpartition(".")[0] in owners or owners <= {"cls", "self"})]
        pm0 = cands[0] if len(cands) == 1 else None
    if not isinstance(pm0, FuncNode):
        raise AnalysisError("_preprocessor_metadata not found")
    return create, makers, pm0, qualname_of(pm0), bname, hook_vals


def sweep_metadata(repo: Repo, R: Report) -> None:
    r = R.rule("C05-D2-sweep-definition-in-metadata", "generated sweep classes carry no identity in processor_ref; the whole sweep definition (wrapped processor, expression signatures, variable domains, mode, broadcast, collection, dependencies) is in the preprocessor metadata, and the same metadata object enriches the canonical nodes on the inspection and the run-time path; a string processor reference is hashed as written", 12)
    create, makers, pm0, pm_q, bname, hook_vals = _sweep_factory(repo)
    pm = NF(repo, SWEEP, pm_q)
    pm_ps = _params_of(pm)
    if isinstance(parent(pm0), ast.ClassDef) and not any(dotted_name(d) == "staticmethod" for d in pm0.decorator_list):
        pm_ps = pm_ps[1:]  # the receiver is not the described class
    cls_p = pm_ps[0] if pm_ps else None
    keys = first_items(returned_mapping(repo, SWEEP, pm))
    # the class attribute each entry is read from, by role: an attribute of the described class that every generated
    # class fills from the (public, keyword-only) parameter of the entry point that carries this part of the definition -
    # whatever the private attribute is called
    cnf = NF(repo, SWEEP, qualname_of(create))
    gen_nf = [c for c in ast.walk(cnf) if isinstance(c, ast.ClassDef)]
    create_params = set(_params_of(cnf))
    sources: Dict[str, str] = {}
    for k in sorted(SWEEP_META_KEYS):
        wanted = set(_DEFINITION_PARAMS[k]) & create_params or create_params
        for attr in sorted(_attrs_read_of(flow(pm, keys.get(k)), cls_p)):
            filled = [[v for v in _class_attr_values(cnf, c, attr, gen_nf)] for c in gen_nf]
            # (a kind of sweep for which the part is None - the parameter's annotation admits it - may leave the attribute out)
            may_omit = all(_admits_none(cnf, p_) for p_ in wanted)
            if any(filled) and all((vs or may_omit) and all(any(isinstance(x, ast.Name) and x.id in wanted for x in flow(cnf, v)) for v in vs) for vs in filled):
                sources.setdefault(k, attr)
    where = pm_q
    for k in sorted(SWEEP_META_KEYS):
        v = keys.get(k)
        part = "/".join(_DEFINITION_PARAMS[k])
        R.check(v is not None and k in sources, r, SWEEP, where, f"metadata[{k!r}] <- class attribute holding {part}", f"the sweep's {k} does not reach the metadata that is hashed (the entry reads no attribute that every generated class fills from the factory's `{part}`): changing it changes no id", pm.lineno)
    R.check(bool(calls_to(flow(pm, keys.get("param_expressions")), "normalize_expression_sig_v1")), r, SWEEP, where, "param_expressions[*].sig = normalize_expression_sig_v1(source)", "expression signatures are not computed from the expression source", pm.lineno)
    R.check(bool(calls_to(flow(pm, keys.get("variables")), "variable_domain_signature")), r, SWEEP, where, "variables[*] = variable_domain_signature(spec)", "variable domains are not summarised by the domain signature", pm.lineno)
    # ... and every declared variable / every parameter expression gets its entry: the per-name mappings are built
    # element by element over the complete class attribute, nothing is skipped (the sweep iterates over all declared
    # variables, referenced by an expression or not)
    for k in ("variables", "param_expressions"):
        attr = sources.get(k)
        if attr is None:
            continue  # reported above
        is_root = lambda e, a=attr: reads_attr([e], a, cls_p)  # noqa: E731
        v = keys.get(k)
        whole = v is not None and derives_whole(repo, SWEEP, pm, v, set(), None, is_root, False)
        R.check(whole, r, SWEEP, where, f"metadata[{k!r}] has one entry for every item of the class attribute holding {'/'.join(_DEFINITION_PARAMS[k])}", f"metadata[{k!r}] is built from a part of cls.{attr} only (filtered / sliced / not every item used): a sweep that differs in one of the left-out entries - e.g. the domain of a variable no expression reads, which still multiplies the produced items - keeps all its ids", getattr(v, "lineno", pm.lineno))
    # every generated class publishes its definition (own hook or inherited from another generated class)
    gen = [c for mk in makers for c in ast.walk(mk) if isinstance(c, ast.ClassDef)]
    publishing = {c.name for c in gen if any(isinstance(v, ast.Call) and call_attr(v) == bname for v in _values_under_key(c, "preprocessor"))}
    n_hooks = sum(1 for c in gen if c.name in publishing or any(dotted_name(b) in publishing for b in c.bases))
    R.check(bool(gen) and n_hooks == len(gen), r, SWEEP, "ParametricSweepFactory.create", "meta['preprocessor'] = _preprocessor_metadata(cls) in all three variants", f"only {n_hooks} of the {len(gen)} generated sweep variants publish their definition", create.lineno)
    # string processor refs are hashed as written
    cn_q, cn, keys_cn, cfg_p = canonical_node_builder(repo)
    pvs = keys_cn.get("processor_ref") or []
    if cfg_p is None:
        raise AnalysisError(f"{cn_q}: the node configuration the processor reference is read from could not be told")
    bad: List[ast.AST] = []
    for pv in pvs:
        bad.extend(_processor_ref_rewrites(cn, pv, cfg_p, False, set()))
    for b in bad:
        R.violation(r, GRAPH, cn_q, "processor_ref rewritten before hashing", "a string processor reference is rewritten before hashing (e.g. resolved to a generated class whose name drops parts of the shorthand): `template:` / `rename:` / `delete:` nodes that differ in meaning get the same node uuid", getattr(b, "lineno", cn.lineno))
    if pvs and not bad:
        R.ok(r, GRAPH, cn_q, "processor_ref: string kept as written, class -> module.qualname", "", cn.lineno)
    # same metadata object on both paths
    bip = nfunc(repo, BUILDER, "build_inspection_payload", keep=("_build_sweep_payload",))
    insp_p = next((a.arg for a in bip.args.kwonlyargs + bip.args.args if a.arg == "inspection"), "inspection")
    # only what is written into the node mappings handed to compute_pipeline_semantic_id counts (the display payload
    # legitimately carries the sanitised view); found by role through c04_rest.hashed_node_fields
    from .c04_rest import hashed_node_fields

    site = (hashed_node_fields(bip) or {}).get("preprocessor_metadata")
    stores = _values_under_key(site, "preprocessor_metadata") if site is not None else []
    ok = bool(stores)
    for v in stores:
        fl = flow(bip, v)
        ok = ok and reads_attr(fl, "nodes", insp_p) and reads_attr(fl, "preprocessor_metadata") and not calls_to(fl, "_build_sweep_payload")
    R.check(ok, r, BUILDER, "build_inspection_payload", "enriched['preprocessor_metadata'] = inspection.nodes[i].preprocessor_metadata", "the inspection path enriches the canonical nodes with something other than the processor's full preprocessor metadata (e.g. a sanitised view without element_ref): its semantic id ignores part of the sweep definition and differs from the run-time one", bip.lineno)
    bpi = nfunc(repo, BUILDER, "build_pipeline_inspection")
    st2 = [n for n in ast.walk(bpi) if isinstance(n, ast.Assign) and any(isinstance(t, ast.Attribute) and t.attr == "preprocessor_metadata" for t in n.targets)]
    kw2 = [k.value for c in ast.walk(bpi) if isinstance(c, ast.Call) for k in c.keywords if k.arg == "preprocessor_metadata"]
    vals2 = [s.value for s in st2] + kw2
    ok = bool(vals2) and all(reads_key(flow(bpi, v), "preprocessor") for v in vals2)
    R.check(ok, r, BUILDER, "build_pipeline_inspection", "node_inspection.preprocessor_metadata = processor metadata['preprocessor']", "inspection records a different preprocessor metadata than the processor publishes", bpi.lineno)
    ex = repo.func(ORCH, "SemantivaOrchestrator.execute")
    exn = nfunc(repo, ORCH, "SemantivaOrchestrator.execute")
    site3 = (hashed_node_fields(exn) or {}).get("preprocessor_metadata")
    st3 = _values_under_key(site3, "preprocessor_metadata") if site3 is not None else []
    ex = exn if st3 else ex
    ok = bool(st3) and all(reads_key(flow(ex, v), "preprocessor") for v in st3)
    R.check(ok, r, ORCH, "SemantivaOrchestrator.execute", "canonical node enriched with processor metadata['preprocessor']", "the run-time path enriches canonical nodes with something other than the processor's preprocessor metadata", ex.lineno)
    # the metadata is read fresh from each processor class (not memoised under a key generated classes share)
    gm = [c for c in ast.walk(ex) if isinstance(c, ast.Call) and call_attr(c) == "get_metadata"]
    cached = [n for n in ast.walk(ex) if isinstance(n, ast.Assign) and any(isinstance(t, ast.Subscript) and not isinstance(t.slice, ast.Constant) for t in n.targets) and any(isinstance(c, ast.Call) and call_attr(c) == "get_metadata" for c in ast.walk(n.value))]
    cached += [c for c in ast.walk(ex) if isinstance(c, ast.Call) and call_attr(c) == "setdefault" and len(c.args) == 2 and not isinstance(c.args[0], ast.Constant) and any(isinstance(x, ast.Call) and call_attr(x) == "get_metadata" for x in ast.walk(c.args[1]))]
    R.check(bool(gm) and not cached, r, ORCH, "SemantivaOrchestrator.execute", "processor metadata read per node, not memoised by name", "processor metadata is memoised under a key (e.g. module.qualname) that generated sweep classes share: a second sweep gets the first one's definition", ex.lineno)


# ---------------------------------------------------------------------------------------------------------
# D2b  the roll-up is handed the spec the enrichment was written into, after it was written
# ---------------------------------------------------------------------------------------------------------

ROLLUP = "compute_pipeline_semantic_id"
ENRICH_KEY = "preprocessor_metadata"
# calls whose result holds (copies of) the elements of their first argument
_CARRYING_CALLS = {"dict", "list", "tuple", "sorted", "deepcopy", "copy", "OrderedDict", "cast", "enumerate", "reversed", "zip", "iter"}


def _base_name(e: ast.AST) -> Optional[str]:
    """Root local of a subscript / attribute / `.get(..)` chain."""
    while True:
        if isinstance(e, (ast.Subscript, ast.Attribute)):
            e = e.value
        elif isinstance(e, ast.Call) and isinstance(e.func, ast.Attribute) and e.func.attr in ("get", "copy", "items", "values") :
            e = e.func.value
        elif isinstance(e, ast.Call) and call_attr(e) in _CARRYING_CALLS and e.args:
            e = e.args[-1] if call_attr(e) == "cast" else e.args[0]
        else:
            break
    return e.id if isinstance(e, ast.Name) else None


def _carried_names(e: ast.AST) -> Dict[str, bool]:
    """{local: placed as it is (alias) / only through a copy or traversal} for the locals whose object (or its
    elements) ends up inside the value of *e*: operands of literals, spreads, conditional expressions, copies and
    comprehensions - not what is merely passed to some other function."""
    out: Dict[str, bool] = {}

    def walk(x: ast.AST, direct: bool) -> None:
        if isinstance(x, ast.Name):
            out[x.id] = out.get(x.id, False) or direct
        elif isinstance(x, ast.Dict):
            for k, v in zip(x.keys, x.values):
                walk(v, direct and k is not None)  # `**m` copies the top level of m
        elif isinstance(x, (ast.List, ast.Tuple, ast.Set)):
            for v in x.elts:
                walk(v.value if isinstance(v, ast.Starred) else v, direct and not isinstance(v, ast.Starred))
        elif isinstance(x, ast.IfExp):
            walk(x.body, direct)
            walk(x.orelse, direct)
        elif isinstance(x, ast.BoolOp):
            for v in x.values:
                walk(v, direct)
        elif isinstance(x, ast.NamedExpr):
            walk(x.value, direct)
        elif isinstance(x, (ast.Subscript, ast.Attribute)):
            pass  # a part of the object: not the object
        elif isinstance(x, ast.BinOp) and isinstance(x.op, (ast.Add, ast.BitOr)):
            walk(x.left, False)
            walk(x.right, False)
        elif isinstance(x, ast.Call):
            nm = call_attr(x)
            if nm in _CARRYING_CALLS or (isinstance(x.func, ast.Attribute) and nm == "copy"):
                for a in (x.args or [x.func.value]):  # type: ignore[union-attr]
                    walk(a, False)
                for kw in x.keywords:
                    walk(kw.value, direct)
        elif isinstance(x, (ast.ListComp, ast.SetComp, ast.GeneratorExp, ast.DictComp)):
            for g in x.generators:
                walk(g.iter, False)
            for b in ([x.key, x.value] if isinstance(x, ast.DictComp) else [x.elt]):
                walk(b, False)

    walk(e, True)
    return out


def _enrichment_sites(fn: ast.AST, key: str) -> List[Tuple[ast.AST, Optional[str], bool]]:
    """(statement, local whose object receives the entry, the statement binds that local) for every write of the
    constant mapping key *key* in *fn*: `t[..][key] = v`, `t.update(key=v)` / `.setdefault(key, v)`, a mapping literal
    or `dict(.., key=v)` assigned to a local / appended to a container / written inline into a call argument
    (local None)."""
    out: List[Tuple[ast.AST, Optional[str], bool]] = []
    for n in _fn_stmts(fn):
        if isinstance(n, ast.Assign):
            for t in n.targets:
                if isinstance(t, ast.Subscript) and isinstance(t.slice, ast.Constant) and t.slice.value == key:
                    out.append((n, _base_name(t.value), False))
        lit = False
        recv: Optional[ast.AST] = None
        if isinstance(n, ast.Dict):
            lit = any(isinstance(k, ast.Constant) and k.value == key for k in n.keys)
        elif isinstance(n, ast.Call):
            nm = call_attr(n)
            if nm in ("dict", "OrderedDict") and any(k.arg == key for k in n.keywords):
                lit = True
            elif nm == "update" and isinstance(n.func, ast.Attribute) and (any(k.arg == key for k in n.keywords) or any(isinstance(a, ast.Dict) and any(isinstance(k, ast.Constant) and k.value == key for k in a.keys) for a in n.args)):
                recv = n.func.value
            elif nm == "setdefault" and isinstance(n.func, ast.Attribute) and len(n.args) == 2 and isinstance(n.args[0], ast.Constant) and n.args[0].value == key:
                recv = n.func.value
        if recv is not None:
            out.append((stmt_of(n), _base_name(recv), False))
        if not lit:
            continue
        if isinstance(parent(n), ast.Call) and call_attr(parent(n)) == "update":
            continue  # counted at the update call
        st = stmt_of(n)
        if isinstance(st, (ast.Assign, ast.AnnAssign)) and st.value is not None:
            tg = st.targets[0] if isinstance(st, ast.Assign) else st.target
            if isinstance(tg, ast.Name):
                out.append((st, tg.id, True))
            else:
                out.append((st, _base_name(tg), False))
        elif isinstance(st, ast.Expr) and isinstance(st.value, ast.Call) and isinstance(st.value.func, ast.Attribute) and st.value.func.attr in GROW_METHODS:
            out.append((st, _base_name(st.value.func.value), False))
        else:
            out.append((st, None, False))
    return out


def _carried_to_call(fn: ast.AST, g: CFG, site: ast.AST, root: str, binds: bool, call: ast.Call) -> bool:
    """The object the local *root* names at *site* is, when *call* runs, (part of) what the call receives as its first
    argument: followed through `m = {.., 'nodes': root}`, `m.append(root)`, `m[k] = root`, copies made after the write,
    and upwards from a part to its owner (`root = m['nodes'][i]`, `for root in m['nodes']`) - every step checked with
    reaching definitions, so that a re-binding on the way (or a binding that only happens after the call) breaks it."""
    call_st = stmt_of(call)
    call_nodes = g.nodes_for(call_st)
    if not call_nodes:
        return False
    cn = call_nodes[0]

    def node_of(st: ast.AST) -> Optional[int]:
        ns = g.nodes_for(st)
        return ns[0] if ns else None

    def defs_at(name: str, nid: int) -> Set[int]:
        return {d.id for d in reaching_defs(g, name, nid)}

    def before(a: int, b: int, not_through: Iterable[int] = ()) -> bool:
        """*b* runs after *a* (without passing one of *not_through*: the re-binding of a loop-local in the next round)"""
        blocked = set(not_through) - {a, b}
        return a == b or b in g.reach([t for t, _l in g.succ[a] if t not in blocked], blocked=blocked)

    site_n = node_of(site)
    if site_n is None:
        return False
    start_defs = {site_n} if binds else defs_at(root, site_n)
    targets = _carried_names(call.args[0]) if call.args else {}
    todo: List[Tuple[str, int, frozenset, bool]] = [(root, site_n, frozenset(start_defs), True)]  # local, node, its defs there, enrichment already in
    seen: Set[Tuple[str, int]] = set()
    stmts = [n for n in _fn_stmts(fn) if isinstance(n, ast.stmt)]
    steps = 0
    while todo and steps < 200:
        steps += 1
        name, at, defs, _ = todo.pop()
        if (name, at) in seen:
            continue
        seen.add((name, at))
        # goal: the local is (in) the argument, and still names this object when the call runs
        if name in targets and before(at, cn) and defs_at(name, cn) <= defs and (targets[name] or before(site_n, cn, defs)):
            return True
        for st in stmts:
            sn = node_of(st)
            if sn is None or sn == at:
                continue
            holder: Optional[str] = None
            direct = False
            binds_holder = False
            if isinstance(st, (ast.Assign, ast.AnnAssign)) and st.value is not None:
                carried = _carried_names(st.value)
                if name in carried:
                    tg = st.targets[0] if isinstance(st, ast.Assign) else st.target
                    direct = carried[name]
                    if isinstance(tg, ast.Name):
                        holder, binds_holder = tg.id, True
                    else:
                        holder = _base_name(tg)
            elif isinstance(st, ast.Expr) and isinstance(st.value, ast.Call) and isinstance(st.value.func, ast.Attribute) and st.value.func.attr in GROW_METHODS:
                c = st.value
                for a in list(c.args) + [k.value for k in c.keywords]:
                    carried = _carried_names(a)
                    if name in carried:
                        holder = _base_name(c.func.value)
                        direct = carried[name]
            if holder is None:
                continue
            # the local still names the object there; a copy has to be made after the write
            if not defs_at(name, sn) <= defs and not (binds_holder and holder == name and defs_at(name, sn) <= defs):
                continue
            if not direct and not before(site_n, sn, defs):
                continue
            if not before(sn, cn):
                continue
            todo.append((holder, sn, frozenset({sn}) if binds_holder else frozenset(defs_at(holder, sn)), True))
        # upwards: the local is a part of a bigger object (`node = spec['nodes'][i]`, `for node in spec['nodes']`)
        for d in defs:
            dn = g.nodes[d]
            src: Optional[ast.AST] = None
            if isinstance(dn.ast, (ast.Assign, ast.AnnAssign)) and dn.kind == "stmt":
                tg = dn.ast.targets[0] if isinstance(dn.ast, ast.Assign) else dn.ast.target
                if isinstance(tg, ast.Name) and tg.id == name and isinstance(dn.ast.value, (ast.Subscript, ast.Call, ast.Attribute, ast.Name)):
                    src = dn.ast.value
            elif isinstance(dn.ast, ast.For) and dn.kind == "for":
                src = dn.ast.iter
            if src is None:
                continue
            if isinstance(src, ast.Call) and call_attr(src) in ("dict", "deepcopy", "copy", "OrderedDict"):
                continue  # a copy of the part is not the part
            owner = _base_name(src)
            if owner is None or owner == name:
                continue
            todo.append((owner, d, frozenset(defs_at(owner, d)), True))
    return False


def rollup_sees_enrichment(repo: Repo, R: Report) -> None:
    """Generated sweep classes share one processor_ref, so the only way the sweep definition reaches the pipeline
    semantic id is the `preprocessor_metadata` entry that the caller of the roll-up writes into the canonical nodes.
    That is an agreement between two sides of a module boundary: the roll-up reads node['preprocessor_metadata'] and
    silently rolls up nothing when it is missing; every caller must hand over the very node mappings it enriched,
    after it enriched them."""
    r = R.rule("C05-D2b-rollup-receives-enriched-spec", "every function that computes the pipeline semantic id of a spec it enriches with `preprocessor_metadata` writes the entry before the roll-up call, into node mappings that are part of the spec the call receives (same object at the time of the call: no later re-binding, no copy taken before the write)", 2)
    callers: List[Tuple[str, str]] = []
    for mod, qn, node in repo.all_functions():
        if mod.rel == SEM or any(isinstance(a, FuncNode) for a in ancestors(node)):
            continue
        if any(call_attr(c) == ROLLUP for c in calls_in(node)):
            callers.append((mod.rel, qn))
    for rel, qn in sorted(callers):
        fn = nfunc(repo, rel, qn)
        g = CFG(fn, may_raise=lambda p: set())
        calls = [c for c in calls_in(fn) if call_attr(c) == ROLLUP and c.args]
        sites = _enrichment_sites(fn, ENRICH_KEY)
        if not calls or not sites:
            continue  # no enrichment here: the spec arrives enriched or has none (judged by C05-D2)
        for c in calls:
            c_nodes = g.nodes_for(stmt_of(c))
            if not c_nodes:
                raise AnalysisError(f"{qn}: roll-up call not in the control-flow graph")
            after_call = g.reach([t for t, _l in g.succ[c_nodes[0]]])
            good: List[ast.AST] = []
            late: List[ast.AST] = []
            elsewhere: List[Tuple[ast.AST, Optional[str]]] = []
            for st, root, binds in sites:
                s_nodes = g.nodes_for(st)
                if not s_nodes:
                    continue
                if st is stmt_of(c) and root is None:
                    good.append(st)
                    continue
                if s_nodes[0] in after_call and s_nodes[0] != c_nodes[0]:
                    late.append(st)
                    continue
                if root is not None and _carried_to_call(fn, g, st, root, binds, c):
                    good.append(st)
                else:
                    elsewhere.append((st, root))
            if good:
                R.ok(r, rel, qn, f"`{norm(good[0])[:70]}` is in the spec when `{_u(c)[:60]}` runs", "", c.lineno)
                continue
            # name the write that was meant for the roll-up: the one into a container that (at some time) is put into the spec
            arg_names = set(_carried_names(c.args[0]))
            meant = [(st, root) for st, root in elsewhere if root is not None and any(isinstance(s2, (ast.Assign, ast.AnnAssign)) and s2.value is not None and root in _carried_names(s2.value) and any(isinstance(t, ast.Name) and t.id in arg_names for t in (s2.targets if isinstance(s2, ast.Assign) else [s2.target])) for s2 in _fn_stmts(fn))]
            if late and not meant:
                st = late[0]
                R.violation(r, rel, qn, norm(st)[:110], f"the canonical nodes are enriched with `{ENRICH_KEY}` only after `{_u(c)[:60]}` has run: the roll-up sees no sweep metadata, so two pipelines that differ only in a sweep definition (expression, variable domain, mode, broadcast, collection, wrapped processor) get the same pipeline semantic id", getattr(st, "lineno", c.lineno))
            else:
                st, root = (meant or elsewhere or [(stmt_of(c), None)])[0]
                R.violation(r, rel, qn, norm(st)[:110], f"`{ENRICH_KEY}` is written into `{root}`, which is not part of what `{_u(c)[:60]}` receives when it runs (it is put into the spec only afterwards, was copied before the write, or the spec is re-bound in between): the roll-up sees no sweep metadata, so two pipelines that differ only in a sweep definition (expression, variable domain, mode, broadcast, collection, wrapped processor) get the same pipeline semantic id", getattr(st, "lineno", c.lineno))


# ---------------------------------------------------------------------------------------------------------
# D3
# ---------------------------------------------------------------------------------------------------------

def _position_index(fn: ast.AST, name: str) -> Optional[Tuple[ast.AST, ast.AST]]:
    """(loop / comprehension clause, its iterable) when the local *name* is bound only as the running position of
    that traversal, so that it takes pairwise distinct values: the index of `enumerate(xs[, <int>])`, the variable of a
    `range(..)` loop, the first component of `zip(range(..) | count(..), xs, ..)`."""
    binders = []
    for n in ast.walk(fn):
        if isinstance(n, (ast.For, ast.comprehension)):
            if any(isinstance(x, ast.Name) and x.id == name for x in ast.walk(n.target)):
                binders.append(n)
    if not binders:
        # a counter kept by hand: set to a constant before the loop, stepped by a non-zero constant exactly once in every
        # iteration (a top-level statement of the loop body, no `continue` that could skip it)
        inits = [n for n in _fn_stmts(fn) if isinstance(n, (ast.Assign, ast.AnnAssign)) and n.value is not None and any(isinstance(t, ast.Name) and t.id == name for t in (n.targets if isinstance(n, ast.Assign) else [n.target]))]
        steps = [n for n in _fn_stmts(fn) if isinstance(n, ast.AugAssign) and isinstance(n.target, ast.Name) and n.target.id == name]
        if len(inits) == 1 and len(steps) == 1 and len(name_values(fn, name)) == 2:
            init, step = inits[0], steps[0]
            loop = parent(step)
            if isinstance(loop, ast.For) and any(step is x for x in loop.body) and not loop.orelse and not any(isinstance(x, ast.Continue) for x in ast.walk(loop)) \
                    and not any(init is x for x in ast.walk(loop)) and isinstance(init.value, ast.Constant) and isinstance(init.value.value, int) \
                    and isinstance(step.op, (ast.Add, ast.Sub)) and isinstance(step.value, ast.Constant) and isinstance(step.value.value, int) and step.value.value != 0 \
                    and not any(isinstance(a, (ast.For, ast.While)) for a in ancestors(loop)):
                return loop, loop.iter
        return None
    if len(binders) != 1 or len(name_values(fn, name)) != 1:
        return None
    b = binders[0]
    it = b.iter

    def counting(c: ast.AST) -> bool:
        if not isinstance(c, ast.Call) or c.keywords and call_attr(c) != "count":
            return False
        if call_attr(c) == "range":
            step = c.args[2] if len(c.args) == 3 else None
            return 1 <= len(c.args) <= 3 and (step is None or (isinstance(step, ast.Constant) and isinstance(step.value, int) and step.value != 0) or (isinstance(step, ast.UnaryOp) and isinstance(step.op, ast.USub) and isinstance(step.operand, ast.Constant) and step.operand.value))
        if call_attr(c) == "count":
            step = c.args[1] if len(c.args) == 2 else kwarg(c, "step")
            return step is None or (isinstance(step, ast.Constant) and isinstance(step.value, int) and step.value != 0)
        return False

    first_of_pair = isinstance(b.target, ast.Tuple) and bool(b.target.elts) and isinstance(b.target.elts[0], ast.Name) and b.target.elts[0].id == name
    if isinstance(it, ast.Call) and call_attr(it) == "enumerate" and first_of_pair and len(it.args) >= 1:
        start = it.args[1] if len(it.args) > 1 else kwarg(it, "start")
        # any constant start keeps the indices pairwise distinct
        if start is None or (isinstance(start, ast.Constant) and isinstance(start.value, int)):
            return b, it
        return None
    if isinstance(b.target, ast.Name) and counting(it):
        return b, it
    if isinstance(it, ast.Call) and call_attr(it) == "zip" and first_of_pair and it.args and counting(it.args[0]) and not any(isinstance(a, ast.Starred) for a in it.args):
        return b, it
    return None


def _sig_alternatives(fn: ast.AST, g: CFG, e: ast.AST, _seen: Optional[Set[str]] = None) -> List[Tuple[ast.AST, Dict[str, List[ast.AST]]]]:
    """(alternative mapping expression, {key: values stored into it afterwards}) for a returned expression: split at
    conditional expressions and at the distinct assignments of a returned local; a later `m[k] = v` belongs to the
    assignments of `m` that reach it (reaching definitions, not line order)."""
    _seen = _seen if _seen is not None else set()
    if isinstance(e, ast.IfExp):
        return _sig_alternatives(fn, g, e.body, _seen) + _sig_alternatives(fn, g, e.orelse, _seen)
    if isinstance(e, ast.Name) and e.id not in _seen:
        defs = [n for n in walk_no_nested(fn) if isinstance(n, (ast.Assign, ast.AnnAssign)) and n.value is not None and any(isinstance(t, ast.Name) and t.id == e.id for t in (n.targets if isinstance(n, ast.Assign) else [n.target]))]
        if defs:
            _seen.add(e.id)
            stores = key_stores(fn, e.id)
            out: List[Tuple[ast.AST, Dict[str, List[ast.AST]]]] = []
            for d in defs:
                extra: Dict[str, List[ast.AST]] = {}
                for st, k, v in stores:
                    nodes = g.nodes_for(st)
                    if nodes and any(rd.ast is d for rd in reaching_defs(g, e.id, nodes[0])):
                        extra.setdefault(k, []).append(v)
                for alt, ex in _sig_alternatives(fn, g, d.value, _seen):
                    merged = {k: list(v) for k, v in ex.items()}
                    for k, v in extra.items():
                        merged.setdefault(k, []).extend(v)
                    out.append((alt, merged))
            return out
    return [(e, {})]


# ---------------------------------------------------------------------------------------------------------
# value flow across scopes: closures, same-module callees, dispatch tables
# ---------------------------------------------------------------------------------------------------------

_MAPPING_CTORS = {"dict", "OrderedDict", "copy", "deepcopy", "cast"}


class _Frame:
    """One scope in which an expression is read: a (normalised) function, a nested def, a lambda or the module.
    *obj*: the names that denote the analysed object here; *bind*: parameter -> (caller frame, argument);
    *outer*: the lexically enclosing frame; *caller*: the frame of the call that entered this one."""

    def __init__(self, repo: Repo, rel: str, fn: ast.AST, obj: Iterable[str] = (), bind: Optional[Dict[str, Tuple["_Frame", ast.AST]]] = None, outer: Optional["_Frame"] = None, caller: Optional["_Frame"] = None) -> None:
        self.repo, self.rel, self.fn = repo, rel, fn
        self.obj = set(obj)
        self.bind = bind or {}
        self.outer = outer
        self.caller = caller
        self.depth = (caller.depth + 1) if caller is not None else 0
        # what "the field <name> of the analysed object" is in this analysis: 'attr' - `<obj>.<name>` / getattr(<obj>, name);
        # 'key' - the entry `<mapping>.get(name[, default])` / `<mapping>[name]` of a configuration mapping;
        # 'param' - the parameter <name> of the function the analysis started in (never re-bound there)
        self.mode: str = caller.mode if caller is not None else outer.mode if outer is not None else "attr"
        self._g: Optional[CFG] = None
        a = getattr(fn, "args", None)
        self.params: List[str] = [x.arg for x in a.posonlyargs + a.args + a.kwonlyargs] + [x.arg for x in (a.vararg, a.kwarg) if x is not None] if isinstance(a, ast.arguments) else []

    @property
    def g(self) -> Optional[CFG]:
        if self._g is None and isinstance(self.fn, FuncNode):
            self._g = CFG(self.fn, may_raise=lambda p: set())
        return self._g

    def module_frame(self) -> "_Frame":
        f = self
        while f.outer is not None:
            f = f.outer
        return f

    def binds(self, name: str) -> bool:
        return name in self.params or bool(name_values(self.fn, name))

    def home(self, name: str) -> Optional["_Frame"]:
        """The frame (this one or a lexically enclosing one) whose scope binds the local *name*."""
        f: Optional[_Frame] = self
        while f is not None:
            if f.binds(name):
                return f
            f = f.outer
        return None

    def is_obj(self, name: str) -> bool:
        h = self.home(name)
        return h is not None and name in h.obj

    def returns(self) -> List[ast.AST]:
        if isinstance(self.fn, ast.Lambda):
            return [self.fn.body]
        return [x.value for x in walk_no_nested(self.fn) if isinstance(x, ast.Return) and x.value is not None]

    def on_stack(self, fn: ast.AST) -> bool:
        f: Optional[_Frame] = self
        while f is not None:
            if f.fn is fn or getattr(f.fn, "_normal_of", None) is getattr(fn, "_normal_of", fn):
                return True
            f = f.caller
        return False


def _root_frame(repo: Repo, rel: str, fn: ast.AST, obj: Iterable[str], mode: str = "attr") -> _Frame:
    top = _Frame(repo, rel, repo.module(rel).tree)
    top.mode = mode
    return _Frame(repo, rel, fn, obj, outer=top)


def _defined_in(fr: _Frame, name: str) -> Optional[Tuple[ast.AST, _Frame]]:
    """The def called *name* written directly in the scope of *fr* or of a lexically enclosing frame (module last)."""
    f: Optional[_Frame] = fr
    while f is not None:
        if isinstance(f.fn, ast.Module):
            d = f.repo.module(f.rel).defs.get(name)
            if isinstance(d, FuncNode):
                return NF(f.repo, f.rel, name), f
            return None
        for n in ast.walk(f.fn):
            if isinstance(n, FuncNode) and n is not f.fn and n.name == name and enclosing_function(n) is f.fn:
                return n, f
        f = f.outer
    return None


def _table_entries(fr: _Frame, e: ast.AST, _seen: Set[Tuple[int, str]]) -> Optional[List[Tuple[_Frame, ast.AST]]]:
    """The values a dispatch table (mapping / sequence literal, `dict(k=v)`, a local or module constant holding one,
    with its `t[k] = v` stores) can hand out; None when the table cannot be told."""
    if isinstance(e, ast.Dict):
        out: List[Tuple[_Frame, ast.AST]] = []
        for k, v in zip(e.keys, e.values):
            if k is None:
                sub = _table_entries(fr, v, _seen)
                if sub is None:
                    return None
                out.extend(sub)
            else:
                out.append((fr, v))
        return out
    if isinstance(e, (ast.Tuple, ast.List)) and not any(isinstance(x, ast.Starred) for x in e.elts):
        return [(fr, x) for x in e.elts]
    if isinstance(e, ast.Call) and call_attr(e) in ("dict", "OrderedDict", "MappingProxyType", "frozendict"):
        out = [(fr, k.value) for k in e.keywords if k.arg is not None]
        for a in list(e.args) + [k.value for k in e.keywords if k.arg is None]:
            sub = _table_entries(fr, a, _seen)
            if sub is None:
                return None
            out.extend(sub)
        return out
    if isinstance(e, ast.Name):
        h = fr.home(e.id)
        if h is None or (id(h), e.id) in _seen:
            return None
        _seen.add((id(h), e.id))
        vals = assigned_value(h.fn, e.id)
        if not vals or len(vals) != len(name_values(h.fn, e.id)) - len(key_stores(h.fn, e.id)):
            return None  # also bound / grown in a way that is not understood
        out = []
        for v in vals:
            sub = _table_entries(h, v, _seen)
            if sub is None:
                return None
            out.extend(sub)
        out.extend((h, v) for _st, _k, v in key_stores(h.fn, e.id))
        return out
    return None


def _callables(fr: _Frame, e: Optional[ast.AST], _seen: Optional[Set[Tuple[int, str]]] = None) -> List[Optional[Tuple[ast.AST, _Frame]]]:
    """The function definitions / lambdas the expression *e* can evaluate to, each with the frame it is written
    in; a None element stands for a callee that cannot be told.  `None` constants (the miss of a table lookup, tested
    before the call) are no callee."""
    _seen = _seen if _seen is not None else set()
    if e is None:
        return [None]
    if isinstance(e, ast.Lambda):
        return [(e, fr)]
    if isinstance(e, ast.Constant) and e.value is None:
        return []
    if isinstance(e, ast.IfExp):
        return _callables(fr, e.body, _seen) + _callables(fr, e.orelse, _seen)
    if isinstance(e, ast.BoolOp):
        return [x for v in e.values for x in _callables(fr, v, _seen)]
    if isinstance(e, ast.NamedExpr):
        return _callables(fr, e.value, _seen)
    if isinstance(e, ast.Name):
        h = fr.home(e.id)
        if h is not None:
            if (id(h), e.id) in _seen:
                return []
            _seen.add((id(h), e.id))
            if e.id in h.params:
                b = h.bind.get(e.id)
                return _callables(b[0], b[1], _seen) if b is not None and not assigned_value(h.fn, e.id) else [None]
            vals = assigned_value(h.fn, e.id)
            if not vals or len(vals) != len(name_values(h.fn, e.id)):
                return [None]
            return [x for v in vals for x in _callables(h, v, _seen)]
        d = _defined_in(fr, e.id)
        return [d] if d is not None else [None]
    table: Optional[ast.AST] = None
    extra: List[ast.AST] = []
    if isinstance(e, ast.Call) and isinstance(e.func, ast.Attribute) and e.func.attr == "get" and 1 <= len(e.args) <= 2 and not e.keywords:
        table, extra = e.func.value, list(e.args[1:])
    elif isinstance(e, ast.Subscript):
        table = e.value
    if table is not None:
        entries = _table_entries(fr, table, set())
        if entries is None:
            return [None]
        return [x for f, v in entries for x in _callables(f, v, _seen)] + [x for v in extra for x in _callables(fr, v, _seen)]
    if isinstance(e, ast.Attribute):
        mod = fr.repo.module(fr.rel)
        d = dotted_name(e) or ""
        head, _, rest = d.partition(".")
        cands = [qn for qn, n in mod.defs.items() if isinstance(n, FuncNode) and (qn == d or (head in ("self", "cls") and "." in qn and qn.rpartition(".")[2] == rest))]
        if len(cands) == 1:
            return [(NF(fr.repo, fr.rel, cands[0]), fr.module_frame())]
    return [None]


def _enter(fr: _Frame, call: ast.Call, target: ast.AST, lex: _Frame) -> _Frame:
    """The frame of *target* entered through *call* read in *fr*: parameters bound to the argument expressions."""
    a = target.args
    pos = [x.arg for x in a.posonlyargs + a.args]
    src = getattr(target, "_normal_of", target)
    if isinstance(call.func, ast.Attribute) and isinstance(src, FuncNode) and isinstance(parent(src), ast.ClassDef) and not any(dotted_name(d) == "staticmethod" for d in src.decorator_list):
        pos = pos[1:]
    bind: Dict[str, Tuple[_Frame, ast.AST]] = {}
    if not any(isinstance(x, ast.Starred) for x in call.args):
        for p, v in zip(pos, call.args):
            bind[p] = (fr, v)
    for k in call.keywords:
        if k.arg is not None:
            bind[k.arg] = (fr, k.value)
    obj = {p for p, (f, v) in bind.items() if isinstance(v, ast.Name) and f.is_obj(v.id)}
    return _Frame(fr.repo, fr.rel, target, obj, bind, lex, fr)


def _entered(fr: _Frame, call: ast.Call) -> Optional[List[_Frame]]:
    """Frames of the same-module functions *call* can invoke (by name, through a local holding a function, through
    a dispatch table); None when a callee cannot be told or lies outside the module, [] when nothing is entered."""
    if fr.depth >= 5:
        return None
    f = call.func
    if isinstance(f, ast.Name) and fr.home(f.id) is None and _defined_in(fr, f.id) is None:
        return None  # builtin / imported
    if isinstance(f, ast.Attribute) and not (isinstance(f.value, ast.Name) and f.value.id in ("self", "cls")) and dotted_name(f) not in fr.repo.module(fr.rel).defs:
        return None  # a method of some value
    tg = _callables(fr, f)
    if not tg or any(t is None for t in tg):
        return None
    out: List[_Frame] = []
    for t in tg:
        assert t is not None
        if fr.on_stack(t[0]):
            continue
        out.append(_enter(fr, call, t[0], t[1]))
    return out


def fflow(fr: _Frame, expr: Optional[ast.AST]) -> List[Tuple[_Frame, ast.AST]]:
    """Backward slice of *expr* across scopes: every syntax node that can contribute to its value, with the frame
    it is read in - locals of the scope, free variables of closures in the enclosing scope, parameters in the argument
    of the entering call, calls of same-module functions in what they return."""
    out: List[Tuple[_Frame, ast.AST]] = []
    if expr is None:
        return out
    seen: Set[Tuple[int, str]] = set()
    todo: List[Tuple[_Frame, ast.AST]] = [(fr, expr)]
    while todo:
        f, e = todo.pop()
        for x in ast.walk(e):
            out.append((f, x))
            if isinstance(x, ast.Name) and isinstance(x.ctx, ast.Load):
                h = f.home(x.id)
                if h is None or (id(h), x.id) in seen:
                    continue
                seen.add((id(h), x.id))
                todo.extend((h, v) for v in name_values(h.fn, x.id))
                if x.id in h.bind:
                    todo.append(h.bind[x.id])
            elif isinstance(x, ast.Call):
                for nf in _entered(f, x) or []:
                    todo.extend((nf, rv) for rv in nf.returns())
    return out


def reads_obj_attr(pairs: Iterable[Tuple[_Frame, ast.AST]], attr: str) -> bool:
    """`<obj>.attr` / `getattr(<obj>, 'attr', ..)` occurs in the slice, <obj> being a name of the analysed object."""
    for f, x in pairs:
        if f.mode != "attr":
            if _is_field_read(f, x, attr):
                return True
            continue
        if isinstance(x, ast.Attribute) and x.attr == attr and isinstance(x.value, ast.Name) and f.is_obj(x.value.id):
            return True
        if isinstance(x, ast.Call) and call_attr(x) == "getattr" and len(x.args) >= 2 and isinstance(x.args[1], ast.Constant) and x.args[1].value == attr and isinstance(x.args[0], ast.Name) and f.is_obj(x.args[0].id):
            return True
    return False


def falternatives(fr: _Frame, e: ast.AST, _seen: Optional[Set[Tuple[int, str]]] = None) -> List[Tuple[_Frame, ast.AST]]:
    """`alternatives` across scopes."""
    _seen = _seen if _seen is not None else set()
    if isinstance(e, ast.IfExp):
        return falternatives(fr, e.body, _seen) + falternatives(fr, e.orelse, _seen)
    if isinstance(e, ast.Name):
        h = fr.home(e.id)
        if h is not None and (id(h), e.id) not in _seen:
            _seen.add((id(h), e.id))
            vals = [(h, v) for v in assigned_value(h.fn, e.id)]
            if not vals and e.id in h.bind:
                vals = [h.bind[e.id]]
            if vals:
                return [x for f, v in vals for x in falternatives(f, v, _seen)]
    return [(fr, e)]


FItems = Dict[str, List[Tuple[_Frame, ast.AST]]]


def _ifexp_split(e: ast.AST) -> List[ast.AST]:
    return _ifexp_split(e.body) + _ifexp_split(e.orelse) if isinstance(e, ast.IfExp) else [e]


def returned_sites(fr: _Frame) -> List[Tuple[_Frame, ast.AST, FItems]]:
    """(frame, mapping expression, {key: values stored into the mapping afterwards}) for everything *fr* can return:
    split at conditional expressions and the assignments of a returned local; a returned call of a same-module
    function - by name, through a local, through a dispatch table - is followed into what that function returns."""
    out: List[Tuple[_Frame, ast.AST, FItems]] = []
    for rv in fr.returns():
        alts = _sig_alternatives(fr.fn, fr.g, rv) if fr.g is not None else [(a, {}) for a in _ifexp_split(rv)]
        for alt, extra in alts:
            fextra: FItems = {k: [(fr, v) for v in vs] for k, vs in extra.items()}
            entered = _entered(fr, alt) if isinstance(alt, ast.Call) and call_attr(alt) not in _MAPPING_CTORS else None
            if not entered:
                out.append((fr, alt, fextra))
                continue
            for nf in entered:
                for sf, sa, se in returned_sites(nf):
                    merged: FItems = {k: list(v) for k, v in se.items()}
                    for k, v in fextra.items():
                        merged.setdefault(k, []).extend(v)
                    out.append((sf, sa, merged))
    return out


# ---------------------------------------------------------------------------------------------------------
# D3b  the value a domain signature stores for a field keeps distinct field values apart
# ---------------------------------------------------------------------------------------------------------

_FALSY_OF = {"bool": False, "int": 0, "float": 0.0, "str": ""}
# conversions that keep distinct values of a field of the given declared type distinct
_INJECTIVE_CASTS = {
    "bool": {"bool", "int", "float", "str", "repr"},
    "int": {"int", "float", "str", "repr"},
    "float": {"float", "str", "repr"},
    "str": {"str", "repr"},
    "any": {"int", "float", "str", "repr"},
}
_CAST_NAMES = {"bool", "int", "float", "str", "repr"}


class _Unknown(Exception):
    pass


def _static_eval(e: ast.AST, env: Dict[str, object]) -> object:
    """Value of a test made of constants, `self.<field>` reads of *env*, comparisons and and/or/not; _Unknown otherwise.
    (A reader of syntax: nothing of the analysed package is executed.)"""
    if isinstance(e, ast.Constant):
        return e.value
    if isinstance(e, ast.Attribute) and isinstance(e.value, ast.Name) and e.attr in env:
        return env[e.attr]
    if isinstance(e, (ast.Tuple, ast.List, ast.Set)):
        return [_static_eval(x, env) for x in e.elts]
    if isinstance(e, ast.UnaryOp) and isinstance(e.op, ast.Not):
        return not _static_eval(e.operand, env)
    if isinstance(e, ast.UnaryOp) and isinstance(e.op, ast.USub):
        v = _static_eval(e.operand, env)
        if isinstance(v, (int, float)):
            return -v
        raise _Unknown
    if isinstance(e, ast.BoolOp):
        vals: List[object] = []
        unknown = False
        for x in e.values:
            try:
                vals.append(_static_eval(x, env))
            except _Unknown:
                unknown = True
        if isinstance(e.op, ast.Or):
            if any(vals):
                return True
            if unknown:
                raise _Unknown
            return False
        if any(not v for v in vals):
            return False
        if unknown:
            raise _Unknown
        return True
    if isinstance(e, ast.Compare) and len(e.ops) == 1:
        a, b, op = _static_eval(e.left, env), _static_eval(e.comparators[0], env), e.ops[0]
        try:
            if isinstance(op, ast.Eq):
                return a == b
            if isinstance(op, ast.NotEq):
                return a != b
            if isinstance(op, ast.Lt):
                return a < b  # type: ignore[operator]
            if isinstance(op, ast.LtE):
                return a <= b  # type: ignore[operator]
            if isinstance(op, ast.Gt):
                return a > b  # type: ignore[operator]
            if isinstance(op, ast.GtE):
                return a >= b  # type: ignore[operator]
            if isinstance(op, ast.In):
                return a in b  # type: ignore[operator]
            if isinstance(op, ast.NotIn):
                return a not in b  # type: ignore[operator]
            if isinstance(op, ast.Is):
                return a is b
            if isinstance(op, ast.IsNot):
                return a is not b
        except TypeError:
            raise _Unknown from None
    raise _Unknown


def _annotated_domain(ann: Optional[ast.AST]) -> Tuple[str, Optional[List[object]]]:
    """(declared type, finite value list or None) an annotation states: `bool`, `Literal[..]`, a plain scalar type."""
    typ: str = "any"
    values: Optional[List[object]] = None
    if isinstance(ann, ast.Constant) and isinstance(ann.value, str):
        try:
            ann = ast.parse(ann.value, mode="eval").body
        except SyntaxError:
            return typ, values
    if isinstance(ann, ast.Name) and ann.id in _FALSY_OF:
        typ = ann.id
    elif isinstance(ann, ast.Subscript) and (dotted_name(ann.value) or "").rpartition(".")[2] == "Literal":
        elts = ann.slice.elts if isinstance(ann.slice, ast.Tuple) else [ann.slice]
        if elts and all(isinstance(x, ast.Constant) for x in elts):
            values = [x.value for x in elts]
            tn = type(values[0]).__name__
            if tn in _FALSY_OF and all(type(v).__name__ == tn for v in values):
                typ = tn
    if typ == "bool":
        values = [False, True]
    return typ, values


def _field_domains(cdef: ast.ClassDef) -> Dict[str, Tuple[str, Optional[List[object]], bool]]:
    """{field: (declared type, finite value list or None, can the falsy value of the type occur)} of a dataclass:
    from the annotation (`Literal[..]` lists the values) and from the guards of `__post_init__` that raise."""
    out: Dict[str, Tuple[str, Optional[List[object]], bool]] = {}
    guards: List[ast.AST] = []
    for st in cdef.body:
        if isinstance(st, FuncNode) and st.name == "__post_init__":
            for s in st.body:
                if isinstance(s, ast.If) and s.body and not s.orelse and isinstance(s.body[-1], ast.Raise):
                    guards.append(s.test)
    for st in cdef.body:
        if not (isinstance(st, ast.AnnAssign) and isinstance(st.target, ast.Name)):
            continue
        typ, values = _annotated_domain(st.annotation)
        falsy_occurs = True
        if typ in _FALSY_OF:
            fv = _FALSY_OF[typ]
            if values is not None and fv not in values:
                falsy_occurs = False
            for t in guards:
                try:
                    if _static_eval(t, {st.target.id: fv}):
                        falsy_occurs = False
                except _Unknown:
                    pass
        out[st.target.id] = (typ, values, falsy_occurs)
    return out


class _Image:
    def __init__(self) -> None:
        self.lossy: List[Tuple[ast.AST, str]] = []
        self.unknown: List[ast.AST] = []
        self.kept = 0


def _key_read(e: ast.AST) -> Optional[Tuple[object, ast.AST]]:
    """(constant key, mapping expression) when *e* reads one entry of a mapping: `m[k]`, `m.get(k[, default])`."""
    if isinstance(e, ast.Subscript) and isinstance(e.ctx, ast.Load) and isinstance(e.slice, ast.Constant):
        return e.slice.value, e.value
    if isinstance(e, ast.Call) and isinstance(e.func, ast.Attribute) and e.func.attr == "get" and 1 <= len(e.args) <= 2 and not e.keywords and isinstance(e.args[0], ast.Constant):
        return e.args[0].value, e.func.value
    return None


def _is_field_read(fr: _Frame, e: ast.AST, field: str) -> bool:
    if fr.mode == "key":
        kr = _key_read(e)
        return kr is not None and kr[0] == field
    if fr.mode == "param":
        if not (isinstance(e, ast.Name) and isinstance(e.ctx, ast.Load) and e.id == field):
            return False
        h = fr.home(e.id)
        return h is not None and h.caller is None and e.id in h.params and not name_values(h.fn, e.id)
    if isinstance(e, ast.Attribute) and e.attr == field and isinstance(e.value, ast.Name) and fr.is_obj(e.value.id):
        return True
    return isinstance(e, ast.Call) and call_attr(e) == "getattr" and isinstance(e.func, ast.Name) and 2 <= len(e.args) <= 3 and isinstance(e.args[1], ast.Constant) and e.args[1].value == field and isinstance(e.args[0], ast.Name) and fr.is_obj(e.args[0].id)


def _absence_test(fr: _Frame, test: ast.AST, field: str) -> Optional[bool]:
    """The truth value of *test* under which the field has no value at all (is None / is not an attribute): such a
    branch may put a default without merging two values of the field.  None when *test* is no such test."""
    if isinstance(test, ast.UnaryOp) and isinstance(test.op, ast.Not):
        v = _absence_test(fr, test.operand, field)
        return None if v is None else not v
    if isinstance(test, ast.Compare) and len(test.ops) == 1 and isinstance(test.comparators[0], ast.Constant) and test.comparators[0].value is None and _reads_field_only(fr, test.left, field):
        if isinstance(test.ops[0], (ast.Is, ast.Eq)):
            return True
        if isinstance(test.ops[0], (ast.IsNot, ast.NotEq)):
            return False
    if isinstance(test, ast.Call) and call_attr(test) == "hasattr" and len(test.args) == 2 and isinstance(test.args[1], ast.Constant) and test.args[1].value == field and isinstance(test.args[0], ast.Name) and fr.is_obj(test.args[0].id):
        return False
    if fr.mode == "key" and isinstance(test, ast.Compare) and len(test.ops) == 1 and isinstance(test.left, ast.Constant) and test.left.value == field and isinstance(test.ops[0], (ast.In, ast.NotIn)):
        return isinstance(test.ops[0], ast.NotIn)  # `'field' in mapping`: the entry is there
    return None


def _value_test(e: ast.AST) -> bool:
    """*e* is a test on the *value* of something (a comparison that is no None / presence test, or and / or / not of
    such): it can come out either way for a present, well-typed value."""
    if isinstance(e, ast.UnaryOp) and isinstance(e.op, ast.Not):
        return _value_test(e.operand)
    if isinstance(e, ast.BoolOp):
        return all(_value_test(v) for v in e.values)
    if isinstance(e, ast.Compare):
        sides = [e.left] + list(e.comparators)
        if any(isinstance(s_, ast.Constant) and s_.value is None for s_ in sides):
            return False
        if any(isinstance(o, (ast.In, ast.NotIn)) for o in e.ops) and isinstance(e.left, ast.Constant):
            return False  # `'key' in mapping`: a presence test
        return True
    return False


def _reads_field_only(fr: _Frame, e: ast.AST, field: str) -> bool:
    """*e* is the field itself: the read, or a local bound once to the read."""
    if _is_field_read(fr, e, field):
        return True
    if isinstance(e, ast.Name):
        h = fr.home(e.id)
        if h is not None:
            vals = name_values(h.fn, e.id)
            return len(vals) == 1 and _reads_field_only(h, vals[0], field)
    return False


def _rebound_field(h: _Frame, use: ast.Name, bound: List[ast.AST], dep, rec, out: _Image, field: str) -> bool:
    """The local read at *use* has bindings that are computed from the field and bindings that are not.  Decided on the
    control-flow graph of its scope: only the bindings that reach the use count; a field-independent one made *after* a
    field-dependent one, under a condition that is a test on the value of something else, replaces every value of the
    field by one (`if mode != 'by_position': broadcast = False`).  False when the shape is not understood."""
    g = h.g
    if g is None or parent(use) is None:
        return False
    try:
        use_nodes = g.nodes_for(stmt_of(use))
    except Exception:
        return False
    if not use_nodes:
        return False

    def node_of(v: ast.AST) -> Optional[int]:
        try:
            ns = g.nodes_for(stmt_of(v))
        except Exception:
            return None
        return ns[0] if ns else None

    rd = {d.id for d in reaching_defs(g, use.id, use_nodes[0])}
    reach_d = [v for v in bound if dep(v, h) and node_of(v) in rd]
    reach_i = [v for v in bound if not dep(v, h) and node_of(v) in rd]
    if not reach_d or len(reach_d) + len(reach_i) != len(rd):
        return False
    verdicts: List[Tuple[ast.AST, str]] = []
    for iv in reach_i:
        inode = node_of(iv)
        ist = stmt_of(iv)
        dsts = [stmt_of(dv) for dv in reach_d]
        after = any(inode in g.reach([t for t, _l in g.succ[node_of(dv)]]) for dv in reach_d)  # type: ignore[index]
        guards = [a.test for a in ancestors(ist) if isinstance(a, ast.If) and not any(x is d for d in dsts for x in ast.walk(a))]
        if after and guards and all(_value_test(t) and not dep(t, h) for t in guards):
            verdicts.append((ist, f"`{use.id} = {_u(iv)[:30]}` under `{_u(guards[0])[:50]}` replaces every value of `{field}` by one"))
            continue
        # a default put first, the field read afterwards where it is present: no two values of the field coincide
        dguards = [[a.test for a in ancestors(d) if isinstance(a, ast.If) and not any(x is ist for x in ast.walk(a))] for d in dsts]
        if not after and all(gs and all(_absence_test(h, t, field) is not None for t in gs) for gs in dguards):
            continue
        return False
    out.lossy.extend(verdicts)
    for v in reach_d:
        rec(v, h)
    return True


def _field_image(fr: _Frame, e: Optional[ast.AST], field: str, dom: Tuple[str, Optional[List[object]], bool], out: _Image, seen: Set[Tuple[int, str]], depth: int = 0) -> None:
    """Judge how *e* (read in *fr*) is computed from the field `<obj>.field`: the value itself, possibly through a
    conversion that keeps distinct values of the declared type distinct - or through an operation that maps two
    values of the field to one (recorded in *out.lossy* with the offending syntax node)."""
    typ, values, falsy_occurs = dom
    if e is None or depth > 14:
        out.unknown.append(e if e is not None else fr.fn)
        return

    def dep(x: ast.AST, f: _Frame = fr) -> bool:
        return reads_obj_attr(fflow(f, x), field)

    def rec(x: ast.AST, f: _Frame = fr) -> None:
        _field_image(f, x, field, dom, out, seen, depth + 1)

    def const(x: ast.AST) -> Tuple[bool, object]:
        if isinstance(x, ast.Constant):
            return True, x.value
        return False, None

    def or_default(d: ast.AST, at: ast.AST) -> None:
        """a falsy value of the field is replaced by *d*"""
        if typ not in _FALSY_OF:
            is_c, dv = const(d)
            if is_c and not dv:
                return
            out.lossy.append((at, f"`{_u(at)[:70]}` replaces every falsy value of `{field}` by one default"))
            return
        if not falsy_occurs:
            return
        fv = _FALSY_OF[typ]
        is_c, dv = const(d)
        if not is_c:
            out.unknown.append(at)
            return
        if (type(dv) is type(fv) and dv == fv) or (values is not None and dv not in values):
            return
        out.lossy.append((at, f"`{_u(at)[:70]}` replaces the value {fv!r} of `{field}` by {dv!r}: the two values get one signature"))

    def and_default(d: ast.AST, at: ast.AST) -> None:
        """every truthy value of the field is replaced by *d* (a falsy one stays)"""
        is_c, dv = const(d)
        if values is None or sum(1 for v in values if v) > 1:
            out.lossy.append((at, f"`{_u(at)[:70]}` replaces every truthy value of `{field}` by one value"))
            return
        if not is_c:
            if falsy_occurs and typ == "bool" and _value_test(d) and not dep(d):
                out.lossy.append((at, f"`{_u(at)[:70]}` is False for every value of `{field}` whenever `{_u(d)[:50]}` does not hold"))
                return
            out.unknown.append(at)
            return
        if falsy_occurs and typ in _FALSY_OF and dv == _FALSY_OF[typ]:
            out.lossy.append((at, f"`{_u(at)[:70]}` gives {dv!r} for every value of `{field}`"))

    if fr.mode != "attr" and _is_field_read(fr, e, field):
        out.kept += 1
        return
    if isinstance(e, ast.Name):
        h = fr.home(e.id)
        if h is None:
            out.unknown.append(e)
            return
        key = (id(h), e.id)
        if key in seen:
            return
        seen.add(key)
        bound = name_values(h.fn, e.id)
        if not bound and e.id in h.params and e.id in h.bind:
            bf, bv = h.bind[e.id]
            rec(bv, bf)
            return
        if not bound or not all(dep(v, h) for v in bound):
            # also bound to something that is no function of the field: decided by control flow - which bindings reach
            # this use, and under what condition a field-independent one replaces the field
            if not _rebound_field(h, e, bound, dep, rec, out, field):
                out.unknown.append(e)
            return
        for v in bound:  # element-wise through tuple unpacking
            rec(v, h)
        return
    if _is_field_read(fr, e, field):
        out.kept += 1
        return
    if isinstance(e, ast.NamedExpr):
        rec(e.value)
        return
    if isinstance(e, (ast.Tuple, ast.List)):
        parts = [x for x in e.elts if dep(x)]
        for x in parts:
            rec(x)
        if not parts:
            out.unknown.append(e)
        return
    if isinstance(e, ast.IfExp):
        bd, od = dep(e.body), dep(e.orelse)
        if bd:
            rec(e.body)
        if od:
            rec(e.orelse)
        if bd and od:
            return
        if not bd and not od:
            # only the test reads the field: `A if <field> else B`
            cb, vb = const(e.body)
            co, vo = const(e.orelse)
            core = e.test.operand if isinstance(e.test, ast.UnaryOp) and isinstance(e.test.op, ast.Not) else e.test
            if _reads_field_only(fr, core, field) and cb and co and vb != vo and values is not None and len(values) <= 2:
                out.kept += 1
            elif _reads_field_only(fr, core, field):
                out.lossy.append((e, f"`{_u(e)[:70]}` keeps only the truth value of `{field}`"))
            else:
                out.unknown.append(e)
            return
        default, taken_when = (e.orelse, False) if bd else (e.body, True)
        absent = _absence_test(fr, e.test, field)
        if absent is not None:
            if absent != taken_when:
                out.lossy.append((e, f"`{_u(e)[:70]}` puts a default for every present value of `{field}`"))
            return
        if not dep(e.test) and _value_test(e.test):
            out.lossy.append((e, f"`{_u(e)[:70]}` gives `{_u(default)[:30]}` for every value of `{field}` whenever `{_u(e.test)[:50]}` {'holds' if taken_when else 'does not hold'}"))
            return
        core, truthy_when = e.test, True
        if isinstance(core, ast.UnaryOp) and isinstance(core.op, ast.Not):
            core, truthy_when = core.operand, False
        if _reads_field_only(fr, core, field):
            # `x if x else D` is `x or D`; `D if x else x` is `x and D`
            if taken_when != truthy_when:
                or_default(default, e)
            else:
                and_default(default, e)
            return
        out.unknown.append(e)
        return
    if isinstance(e, ast.BoolOp) and len(e.values) == 2:
        a, b = e.values
        ad, bd = dep(a), dep(b)
        if ad and not bd:
            rec(a)
            (or_default if isinstance(e.op, ast.Or) else and_default)(b, e)
            return
        if bd and not ad:
            is_c, av = const(a)
            if not is_c and _value_test(a):
                out.lossy.append((e, f"`{_u(e)[:70]}` does not depend on `{field}` whenever `{_u(a)[:50]}` {'holds' if isinstance(e.op, ast.Or) else 'does not hold'}"))
            elif not is_c:
                out.unknown.append(e)
            elif bool(av) == isinstance(e.op, ast.Or):
                out.lossy.append((e, f"`{_u(e)[:70]}` never evaluates to `{field}`"))
            else:
                rec(b)
            return
        out.unknown.append(e)
        return
    if isinstance(e, ast.UnaryOp):
        if isinstance(e.op, ast.Not) and not (values is not None and len(values) <= 2):
            out.lossy.append((e, f"`{_u(e)[:70]}` keeps only the truth value of `{field}`"))
            return
        rec(e.operand)
        return
    if isinstance(e, ast.JoinedStr):
        for v in e.values:
            if isinstance(v, ast.FormattedValue) and dep(v.value):
                if v.format_spec is not None:
                    out.lossy.append((e, f"`{_u(e)[:70]}` formats `{field}` to a fixed precision / width"))
                else:
                    rec(v.value)
        return
    if isinstance(e, ast.BinOp):
        ld, rd = dep(e.left), dep(e.right)
        if ld and rd:
            out.unknown.append(e)
            return
        side, other = (e.left, e.right) if ld else (e.right, e.left)
        is_c, ov = const(other)
        if isinstance(e.op, (ast.Add, ast.Sub)) or (isinstance(e.op, ast.Mult) and is_c and isinstance(ov, (int, float)) and ov != 0) or (isinstance(e.op, ast.Div) and ld and is_c and isinstance(ov, (int, float)) and ov != 0):
            rec(side)
            return
        if isinstance(e.op, (ast.FloorDiv, ast.Mod, ast.LShift, ast.RShift, ast.BitAnd, ast.BitOr, ast.Mult, ast.Pow)):
            out.lossy.append((e, f"`{_u(e)[:70]}` maps distinct values of `{field}` to one"))
            return
        out.unknown.append(e)
        return
    if isinstance(e, ast.Compare):
        sides = [e.left] + list(e.comparators)
        if len(sides) == 2 and any(_reads_field_only(fr, s, field) for s in sides) and any(isinstance(s, ast.Constant) for s in sides) and isinstance(e.ops[0], (ast.Eq, ast.NotEq, ast.Is, ast.IsNot)) and values is not None and len(values) <= 2:
            out.kept += 1
            return
        out.lossy.append((e, f"`{_u(e)[:70]}` keeps only the outcome of a comparison of `{field}`"))
        return
    if isinstance(e, ast.Subscript):
        out.lossy.append((e, f"`{_u(e)[:70]}` keeps only a part of the value of `{field}`"))
        return
    if isinstance(e, ast.Call):
        nm = call_attr(e)
        if isinstance(e.func, ast.Name) and nm in _CAST_NAMES and len(e.args) == 1 and not e.keywords and fr.home(nm) is None and _defined_in(fr, nm) is None:
            if nm in _INJECTIVE_CASTS[typ]:
                rec(e.args[0])
            else:
                out.lossy.append((e, f"`{_u(e)[:70]}` narrows the {typ} field `{field}`"))
            return
        if nm == "cast" and len(e.args) == 2 and not e.keywords and _defined_in(fr, "cast") is None:
            rec(e.args[1])  # typing.cast returns its second argument
            return
        entered = _entered(fr, e)
        if entered:
            for nf in entered:
                rets = nf.returns()
                if not rets:
                    out.unknown.append(e)
                for rv in rets:
                    if reads_obj_attr(fflow(nf, rv), field):
                        _field_image(nf, rv, field, dom, out, seen, depth + 1)
                    else:
                        out.unknown.append(rv)
            return
        if nm in NARROWING_FUNCS:
            out.lossy.append((e, f"`{_u(e)[:70]}` maps distinct values of `{field}` to one"))
            return
        out.unknown.append(e)
        return
    out.unknown.append(e)


# ---------------------------------------------------------------------------------------------------------
# D3c  what a sequence value passes through on its way into the digest hands it on whole
# ---------------------------------------------------------------------------------------------------------

# calls that keep a bounded part of their argument whatever module they come from
_CUT_FUNCS = {"shorten", "islice"}


def _package_callees(fr: _Frame, call: ast.Call) -> List[Tuple[Module, ast.AST]]:
    """Module-level functions / methods of the package *call* (read in *fr*) invokes that `_entered` does not follow:
    functions of other modules, found through the imports of the module the call is written in."""
    if _entered(fr, call) is not None:
        return []
    try:
        targets = fr.repo.resolve_call(fr.repo.module(fr.rel), call)
    except Exception:  # a call inside a normal form without the links the resolver wants: not resolved
        targets = []
    out = []
    for tm, tn in targets:
        if isinstance(tn, FuncNode) and tm.defs.get(qualname_of(tn)) is tn and not (tm.rel == fr.rel and fr.on_stack(tn)):
            out.append((tm, tn))
    return out


def _positional_params(tn: ast.AST, call: ast.Call) -> List[str]:
    a = tn.args
    pos = [x.arg for x in a.posonlyargs + a.args]
    if isinstance(parent(tn), ast.ClassDef) and not any(dotted_name(d) == "staticmethod" for d in tn.decorator_list) and (isinstance(call.func, ast.Attribute) or tn.name == "__init__"):
        pos = pos[1:]
    return pos


def _value_cuts(fr: _Frame, e: Optional[ast.AST], depth: int = 0, seen: Optional[Set[int]] = None, local: bool = True) -> List[Tuple[str, str, ast.AST, str]]:
    """(file, function, construct, why) for everything in the backward slice of *e* (read in *fr*, followed into
    same-module callees by `fflow` and into functions of other modules here) that keeps only a bounded part of a value
    derived from the analysed object: a slice / an element, a bounded-length rendering, a precision format.  With
    *local=False* only the functions of other modules are judged (the constructs of the module itself belong to the
    caller's own rule)."""
    import re

    seen = seen if seen is not None else set()
    out: List[Tuple[str, str, ast.AST, str]] = []
    if e is None or depth > 3:
        return out
    pairs = fflow(fr, e)

    def dep(f: _Frame, x: ast.AST) -> bool:
        return any(isinstance(y, ast.Name) and f2.is_obj(y.id) for f2, y in fflow(f, x))

    def where(f: _Frame) -> Tuple[str, str]:
        src = getattr(f.fn, "_normal_of", f.fn)
        return f.rel, qualname_of(src) if isinstance(src, FuncNode) else "<module>"

    for f, x in pairs:
        why: Optional[str] = None
        if not local and not isinstance(x, ast.Call):
            continue
        if isinstance(x, ast.Subscript) and isinstance(x.ctx, ast.Load) and (isinstance(x.slice, (ast.Slice, ast.Constant)) or (isinstance(x.slice, ast.UnaryOp) and isinstance(x.slice.operand, ast.Constant))) and dep(f, x.value):
            # (an element picked by a running index / key - `m[k] for k in m` - is a traversal, not a cut)
            why = f"`{_u(x)[:60]}` keeps only a slice / one element"
        elif isinstance(x, ast.FormattedValue) and x.format_spec is not None and any(isinstance(c, ast.Constant) and isinstance(c.value, str) and "." in c.value for c in ast.walk(x.format_spec)) and dep(f, x.value):
            why = f"`{_u(x)[:60]}` formats to a fixed precision / width"
        elif isinstance(x, ast.BinOp) and isinstance(x.op, ast.Mod) and isinstance(x.left, ast.Constant) and isinstance(x.left.value, str) and re.search(r"%[-#0 +]*\d*\.\d+", x.left.value) and dep(f, x.right):
            why = f"`{_u(x)[:60]}` formats to a fixed precision / width"
        elif isinstance(x, ast.Call):
            nm, d = call_attr(x), dotted_name(x.func) or ""
            args = list(x.args) + [k.value for k in x.keywords]
            if (nm in _CUT_FUNCS or d.startswith("reprlib.")) and (not local or any(dep(f, a) for a in args)):
                why = f"`{_u(x)[:60]}` renders at a bounded length"
            else:
                for tm, tn in _package_callees(f, x):
                    if id(tn) in seen:
                        continue
                    seen.add(id(tn))
                    pos = _positional_params(tn, x)
                    bound: Dict[str, ast.AST] = dict(zip(pos, x.args)) if not any(isinstance(a, ast.Starred) for a in x.args) else {}
                    bound.update({k.arg: k.value for k in x.keywords if k.arg})
                    obj = {p for p, v in bound.items() if not isinstance(v, ast.Constant)}
                    if not obj:
                        continue
                    f.repo.consulted.add(tm.rel)
                    nf_ = _root_frame(f.repo, tm.rel, NF(f.repo, tm.rel, qualname_of(tn)), obj)
                    for rv in nf_.returns():
                        out.extend(_value_cuts(nf_, rv, depth + 1, seen, True))
        if why is not None:
            rel, qn = where(f)
            out.append((rel, qn, x, why))
    return out


def positional_and_domains(repo: Repo, R: Report) -> None:
    r = R.rule("C05-D3-position-and-domain", "declaration_index is the enumerate() index of the node in the spec; the range signature covers every RangeSpec field; the sequence signature covers count and a digest of all values", 9)
    bcs = NF(repo, GRAPH, "build_canonical_spec")
    _uu, objs = _hashed_node_objects(bcs)
    g = CFG(bcs, may_raise=lambda p: set())
    ok = bool(objs)
    for o in objs:
        v = _effective_value(bcs, g, o, "declaration_index", _enclosing_stmt(bcs, o), 0, repo, GRAPH)
        pos = _position_index(bcs, v.id) if isinstance(v, ast.Name) else None
        ok = ok and pos is not None
        # ... and the loop that computes the uuid is that traversal
        if ok and pos is not None:
            loop = pos[0]
            inside = isinstance(loop, ast.For) and any(x is o for x in ast.walk(loop)) or (isinstance(loop, ast.comprehension) and any(x is o for x in ast.walk(parent(loop))))
            ok = ok and bool(inside)
    R.check(ok, r, GRAPH, "build_canonical_spec", "canonical node['declaration_index'] = <running position of the node in the spec>", "identical nodes at different positions can receive the same uuid", bcs.lineno)
    cn_q, cn, keys_cn, _cfg = canonical_node_builder(repo)
    dv = keys_cn.get("declaration_index") or []
    if cn_q == "build_canonical_spec":
        # the record is written where it is hashed: its 'declaration_index' is the value judged above
        ok = ok and bool(dv)
    else:
        cn_params = set(_params_of(cn))
        ok = bool(dv) and all(isinstance(v, ast.Name) and v.id in cn_params and not name_values(cn, v.id) for v in dv)
    R.check(ok, r, GRAPH, cn_q, "'declaration_index': declaration_index", "the positional discriminator is not the parameter", cn.lineno)
    # RangeSpec fields vs signature
    rs = repo.cls(SWEEP, "RangeSpec")
    fields = [st.target.id for st in rs.body if isinstance(st, ast.AnnAssign) and isinstance(st.target, ast.Name)]
    vds = NF(repo, SEM, "variable_domain_signature")
    root = _root_frame(repo, SEM, vds, _params_of(vds)[:1])
    # every mapping the function can return, in the scope where it is written (its own body, a closure or a
    # same-module function it hands the spec to - called by name or picked from a dispatch table), by its constant 'kind'
    sigs: Dict[str, List[Dict[str, Tuple[_Frame, ast.AST]]]] = {}
    for sf, alt, extra in returned_sites(root):
        items: FItems = {k: [(sf, v) for v in vs] for k, vs in mapping_items(repo, SEM, sf.fn, alt).items()} if not isinstance(alt, ast.Name) else {}
        for k, v in extra.items():
            items.setdefault(k, []).extend(v)
        for _kf, kv in items.get("kind", []):
            if isinstance(kv, ast.Constant) and isinstance(kv.value, str):
                sigs.setdefault(kv.value, []).append({k: vs[0] for k, vs in items.items() if vs})
    range_sigs, seq_sigs, fc_sigs = sigs.get("range"), sigs.get("sequence"), sigs.get("from_context")
    if not range_sigs or not seq_sigs:
        raise AnalysisError("variable_domain_signature: range / sequence signatures not found")
    for f in fields:
        ok = all(sig.get(f) is not None and reads_obj_attr(fflow(*sig[f]), f) for sig in range_sigs)
        R.check(ok, r, SEM, "variable_domain_signature", f"range signature covers RangeSpec.{f}", f"RangeSpec.{f} is not part of the domain signature: changing it changes no id", vds.lineno)
    # ... and what is stored for a field tells its values apart: reaching the signature is not enough when the value
    # passes an operation that maps two values of the field to one on the way (`x or <default>` on a flag, a narrowing
    # cast, rounding, a comparison, a slice)
    rb = R.rule("C05-D3b-domain-field-values-kept-apart", "the value the range signature stores for a RangeSpec field is the field itself, possibly through a conversion that keeps distinct values of its declared type distinct (float() of a float, bool() of a flag, str() of a Literal); no default is substituted for a value the field can take, no narrowing cast, rounding, comparison or slicing on the way", len(fields))
    doms = _field_domains(rs)
    for f in fields:
        for sig in range_sigs:
            if sig.get(f) is None or not reads_obj_attr(fflow(*sig[f]), f):
                continue  # reported by the coverage rule above
            img = _Image()
            _field_image(sig[f][0], sig[f][1], f, doms.get(f, ("any", None, True)), img, set())
            for node, why in img.lossy:
                R.violation(rb, SEM, "variable_domain_signature", f"range signature[{f!r}] = {_u(sig[f][1])[:60]}", f"two values of RangeSpec.{f} give the same domain signature ({why}): sweeps that differ only there - and produce different items - share node semantic id, semantic id and config id", getattr(node, "lineno", vds.lineno))
            if img.unknown and not img.lossy:
                raise AnalysisError(f"variable_domain_signature: value of {f!r} is computed from RangeSpec.{f} in a way that is not understood: `{_u(img.unknown[0])[:80]}`")
            if not img.lossy:
                R.ok(rb, SEM, "variable_domain_signature", f"range signature[{f!r}] is an injective image of RangeSpec.{f}", "", vds.lineno)

    def all_values(fr: _Frame, e: Optional[ast.AST]) -> bool:
        """*e* is computed from the complete `spec.values` (no slice / index / filter on the way)."""
        fl = fflow(fr, e)
        return reads_obj_attr(fl, "values") and not any(isinstance(x, ast.Subscript) for _f, x in fl) and not any(isinstance(x, ast.comprehension) and x.ifs for _f, x in fl)

    ok = True
    for sig in seq_sigs:
        cnts = falternatives(*sig["count"]) if sig.get("count") is not None else []
        ok = ok and bool(cnts) and all(isinstance(c, ast.Call) and call_attr(c) == "len" and len(c.args) == 1 and not c.keywords and all_values(cf, c.args[0]) for cf, c in cnts)
    R.check(ok, r, SEM, "variable_domain_signature", "sequence signature: count = len(values)", "the number of values is not part of the signature", vds.lineno)
    # digests computed here or in a function of this module that is handed the values
    ok = True
    for sig in seq_sigs:
        n_dig = 0
        for k, (vf, v) in sig.items():
            if k == "kind":
                continue
            for cf, c in fflow(vf, v):
                if isinstance(c, ast.Call) and call_attr(c) in HASH_FUNCS:
                    n_dig += 1
                    ok = ok and bool(c.args) and all_values(cf, c.args[0])
        ok = ok and n_dig > 0
    R.check(ok, r, SEM, "variable_domain_signature", "sequence signature: digest over all values", "the sequence digest covers only a part of the values (e.g. head/tail): sequences differing in the middle share a signature", vds.lineno)
    # ... and every value arrives there whole: the digest is the only part of the signature that covers the complete
    # domain, so a helper on the way (also one of another module: a shared repr / sanitising helper that is fine for
    # a display sample) must not cut the value or its rendering
    rc = R.rule("C05-D3c-digest-values-rendered-whole", "every function of the package a sequence value passes through on its way into the sequence digest - followed across module boundaries through the imports - returns the value or a complete rendering of it: no slice / element, bounded-length rendering or precision format of (a text derived from) its argument", 1)
    for sig in seq_sigs:
        for k, (vf, v) in sig.items():
            if k == "kind":
                continue
            for cf, c in fflow(vf, v):
                if not (isinstance(c, ast.Call) and call_attr(c) in HASH_FUNCS and c.args):
                    continue
                cuts = _value_cuts(cf, c.args[0], 0, set(), False)
                for rel, qn, node, why in cuts:
                    R.violation(rc, rel, qn, norm(stmt_of(node))[:110] if parent(node) is not None else _u(node)[:110], f"a value of a sweep sequence reaches the digest `{_u(c)[:70]}` of the domain signature only in part ({why}): two sweeps whose domains differ beyond the kept part - and produce different items - share the variable signature, hence node semantic id, semantic id and config id", getattr(node, "lineno", vds.lineno))
                if not cuts:
                    R.ok(rc, SEM, "variable_domain_signature", f"digest input `{_u(c.args[0])[:70]}`: nothing on the way cuts a value", "", getattr(c, "lineno", vds.lineno))
    ok = bool(fc_sigs) and all("key" in sig and reads_obj_attr(fflow(*sig["key"]), "key") for sig in fc_sigs or [])
    R.check(ok, r, SEM, "variable_domain_signature", "from_context signature carries the key", "the context key of a from_context variable is not part of the signature", vds.lineno)


# ---------------------------------------------------------------------------------------------------------
# D7  the finite-valued parts of a sweep definition keep their values apart from the configuration to the metadata
# ---------------------------------------------------------------------------------------------------------

def _class_attr_values(fn: ast.AST, cdef: ast.ClassDef, attr: str, gen: List[ast.ClassDef], _seen: Optional[Set[int]] = None) -> List[ast.AST]:
    """What the class *cdef* (generated inside *fn*) holds in its attribute *attr*: assignments of its body, stores
    `<Class>.attr = v` made by *fn* afterwards, otherwise what a generated base class holds."""
    _seen = _seen if _seen is not None else set()
    if id(cdef) in _seen:
        return []
    _seen.add(id(cdef))
    out: List[ast.AST] = []
    for st in cdef.body:
        if isinstance(st, ast.Assign) and any(isinstance(t, ast.Name) and t.id == attr for t in st.targets):
            out.append(st.value)
        elif isinstance(st, ast.AnnAssign) and isinstance(st.target, ast.Name) and st.target.id == attr and st.value is not None:
            out.append(st.value)
    for n in ast.walk(fn):
        if isinstance(n, ast.Assign) and any(isinstance(t, ast.Attribute) and t.attr == attr and isinstance(t.value, ast.Name) and t.value.id == cdef.name for t in n.targets):
            out.append(n.value)
        elif isinstance(n, ast.Call) and call_attr(n) == "setattr" and len(n.args) == 3 and isinstance(n.args[0], ast.Name) and n.args[0].id == cdef.name and isinstance(n.args[1], ast.Constant) and n.args[1].value == attr:
            out.append(n.args[2])
    if not out:
        for b in cdef.bases:
            base = next((c for c in gen if c.name == dotted_name(b)), None)
            if base is not None:
                out.extend(_class_attr_values(fn, base, attr, gen, _seen))
    return out


def _config_keys_read(fr: _Frame, e: ast.AST) -> Set[object]:
    """Constant keys of the configuration entries the value of *e* is computed from: the `m[k]` / `m.get(k)` reads of
    its backward slice, without the reads that only lead to the mapping another entry is read from."""
    reads: List[Tuple[ast.AST, object, ast.AST]] = []
    for _f, x in fflow(fr, e):
        kr = _key_read(x)
        if kr is not None and isinstance(kr[0], str):
            reads.append((x, kr[0], kr[1]))
    base_ids = {id(y) for _x, _k, recv in reads for y in ast.walk(recv)}
    return {k for x, k, _recv in reads if id(x) not in base_ids}


def _verdict(img: _Image) -> str:
    return "lossy" if img.lossy else "unknown" if img.unknown or not img.kept else "clean"


def sweep_field_values_handed_over(repo: Repo, R: Report) -> None:
    """`mode` and `broadcast` (the finite-valued parts of a sweep definition) travel a long way before they are hashed:
    configuration entry -> argument of the sweep factory's entry point -> attribute of the generated class -> entry of
    the published definition (-> node semantic id, D1 / D2).  D2 decides that the last hop *reads* the attribute; this
    rule decides that every hop keeps the values apart.  A hop that computes the value handed on from the field *and*
    something else (`broadcast and mode == 'by_position'`: "broadcast means nothing for a combinatorial sweep") maps
    two settings of the field to one generated class, one definition, one set of ids."""
    r = R.rule("C05-D7-sweep-field-values-handed-over", "every finite-valued part of a sweep definition (a parameter of the sweep factory's entry point annotated bool / Literal[..] that the generated classes keep in an attribute the published definition reads: mode, broadcast) keeps distinct values distinct on every hop from the configuration to the published definition: where code of the package calls the entry point with values read from a configuration mapping, the argument for it is the entry itself or an injective image of it (not and-ed / or-ed / switched with another field so that two values coincide, no constant in its place); every generated class stores an injective image of the parameter; the published definition is an injective image of the attribute", 6)
    create, makers, pm0, pm_q, bname, _hv = _sweep_factory(repo)
    create_q = qualname_of(create)
    cnf = NF(repo, SWEEP, create_q)
    pm = NF(repo, SWEEP, pm_q)
    pm_ps = _params_of(pm)
    if isinstance(parent(pm0), ast.ClassDef) and not any(dotted_name(d) == "staticmethod" for d in pm0.decorator_list):
        pm_ps = pm_ps[1:]
    cls_p = pm_ps[0] if pm_ps else None
    if cls_p is None:
        raise AnalysisError(f"{pm_q}: the parameter that receives the generated class was not found")
    keys = first_items(returned_mapping(repo, SWEEP, pm))
    # attributes of the generated class the published definition reads, with the entries that read them
    meta_attrs: Dict[str, List[str]] = {}
    for k in sorted(SWEEP_META_KEYS):
        for a in sorted(_attrs_read_of(flow(pm, keys.get(k)), cls_p)):
            meta_attrs.setdefault(a, []).append(k)
    gen_all = [c for mk in makers for c in ast.walk(mk) if isinstance(c, ast.ClassDef)]
    gen = [c for c in ast.walk(cnf) if isinstance(c, ast.ClassDef)]
    if not gen or len(gen) < len(gen_all):
        raise AnalysisError(f"{create_q}: {len(gen_all)} generated classes in the factory, {len(gen)} in the normal form of the entry point")
    # the finite-valued parameters of the entry point, and which of them the generated classes keep for the definition
    cargs = cnf.args
    all_params = cargs.posonlyargs + cargs.args + cargs.kwonlyargs
    finite: Dict[str, Tuple[str, Optional[List[object]], bool]] = {}
    for a_ in all_params:
        typ, values = _annotated_domain(a_.annotation)
        if values is not None:
            finite[a_.arg] = (typ, values, typ not in _FALSY_OF or _FALSY_OF[typ] in values)
    kept_in: Dict[str, List[Tuple[ast.ClassDef, str, ast.AST]]] = {}
    for c in gen:
        for attr in meta_attrs:
            for v in _class_attr_values(cnf, c, attr, gen):
                for p_ in finite:
                    if any(isinstance(x, ast.Name) and x.id == p_ for x in flow(cnf, v)) and not name_values(cnf, p_):
                        kept_in.setdefault(p_, []).append((c, attr, v))
    ident = sorted(kept_in)
    if not ident:
        raise AnalysisError(f"{create_q}: no bool / Literal parameter is kept by the generated classes in an attribute the published definition reads (mode, broadcast expected)")
    cfr = _root_frame(repo, SWEEP, cnf, [], mode="param")
    pfr = _root_frame(repo, SWEEP, pm, [cls_p])
    for p_ in ident:
        dom = finite[p_]
        # (ii) every generated class keeps an injective image of the parameter
        holding: Set[str] = set()  # the attributes that hold the parameter (an injective image of it) in some generated class
        for c in gen:
            rows = [(attr, v) for c2, attr, v in kept_in[p_] if c2 is c]
            stmt = f"class {c.name}: <attribute the definition reads> = {p_}"
            if not rows:
                R.violation(r, SWEEP, create_q, stmt, f"the generated class `{c.name}` keeps nothing of the parameter `{p_}` in an attribute the published definition reads ({', '.join(sorted(meta_attrs))}): for this kind of sweep two definitions that differ in `{p_}` publish one definition, hence share node semantic id, semantic id and config id", c.lineno)
                continue
            imgs = []
            for attr, v in rows:
                img = _Image()
                _field_image(cfr, v, p_, dom, img, set())
                imgs.append((attr, v, img))
            holding |= {attr for attr, _v, i in imgs if _verdict(i) == "clean"}
            if any(_verdict(i) == "clean" for _a, _v, i in imgs):
                R.ok(r, SWEEP, create_q, stmt, "", c.lineno)
                continue
            lossy = [(attr, v, node, why) for attr, v, i in imgs for node, why in i.lossy]
            if not lossy:
                raise AnalysisError(f"{create_q}: `{c.name}.{imgs[0][0]} = {_u(imgs[0][1])[:60]}` is computed from `{p_}` in a way that is not understood")
            for attr, v, node, why in lossy[:1]:
                R.violation(r, SWEEP, create_q, stmt, f"`{c.name}.{attr} = {_u(v)[:60]}` maps two values of the parameter `{p_}` to one ({why}): sweeps that differ only in `{p_}` publish one definition, hence share node semantic id, semantic id and config id", getattr(node, "lineno", c.lineno))
        # (iii) the published definition is an injective image of the attribute
        for attr in sorted(holding):
            for k in meta_attrs[attr]:
                img = _Image()
                _field_image(pfr, keys.get(k), attr, dom, img, set())
                stmt = f"definition[{k!r}] <- <generated class>.<attribute holding {p_}>"
                if _verdict(img) == "clean":
                    R.ok(r, SWEEP, pm_q, stmt, "", pm.lineno)
                elif img.lossy:
                    node, why = img.lossy[0]
                    R.violation(r, SWEEP, pm_q, stmt, f"the published definition's {k!r} maps two values of `{p_}` (held in `{attr}`) to one ({why}): sweeps that differ only there share node semantic id, semantic id and config id", getattr(node, "lineno", pm.lineno))
                else:
                    raise AnalysisError(f"{pm_q}: definition[{k!r}] is computed from the class attribute `{attr}` in a way that is not understood")
    # (i) the callers: every function of the package in whose normal form a call of the entry point appears
    direct: Dict[str, Set[str]] = {}
    for m, qn, f in repo.all_functions():
        if f is create:
            continue
        for c in calls_in(f):
            if c.args or c.keywords:
                if any(tn is create for _tm, tn in repo.resolve_call(m, c)):
                    d = dotted_name(c.func)
                    if d:
                        direct.setdefault(m.rel, set()).add(d)
    judged: Dict[str, int] = {p_: 0 for p_ in ident}
    seen_sites: Set[Tuple[str, str, str]] = set()
    for rel in sorted(direct):
        repo.consulted.add(rel)
        mod = repo.module(rel)
        for qn, f in sorted(mod.defs.items()):
            if not isinstance(f, FuncNode) or any(isinstance(a, FuncNode) for a in ancestors(f)):
                continue
            if not any(isinstance(c, ast.Call) and dotted_name(c.func) in direct[rel] for c in ast.walk(f)) and not any(isinstance(c, ast.Call) and _local_callee(repo, rel, f, c) is not None for c in walk_no_nested(f)):
                continue
            nf = NF(repo, rel, qn)
            sites = [c for c in walk_no_nested(nf) if isinstance(c, ast.Call) and dotted_name(c.func) in direct[rel]]
            if not sites:
                continue
            fr = _root_frame(repo, rel, nf, [], mode="key")
            for c in sites:
                bound = _bound_args(create, c)
                per: Dict[str, Set[object]] = {}
                for p_ in ident:
                    a = bound.get(p_)
                    per[p_] = _config_keys_read(fr, a) if a is not None and not isinstance(a, ast.Constant) else set()
                if not any(per.values()):
                    continue  # nothing here comes from a configuration mapping (a helper handing its parameters on)
                for p_ in ident:
                    a = bound.get(p_)
                    stmt = f"{dotted_name(c.func)}(.., {p_}=<configuration entry>)"
                    tag = (rel, qn, stmt)
                    if a is None or isinstance(a, ast.Constant):
                        judged[p_] += 1
                        R.violation(r, rel, qn, stmt, f"`{_u(c)[:50]}..` builds a sweep from a configuration mapping but gives `{p_}` {'no value' if a is None else 'the constant ' + _u(a)}: the documented field cannot change the generated class, so configurations that differ only in it share node semantic id, semantic id and config id", c.lineno)
                        continue
                    if not per[p_]:
                        raise AnalysisError(f"{rel}:{qn}: the value handed to the sweep factory for `{p_}` (`{_u(a)[:60]}`) is not computed from a configuration entry while other parts of the definition are")
                    imgs2: List[Tuple[object, _Image]] = []
                    for k in sorted(per[p_], key=str):
                        img = _Image()
                        _field_image(fr, a, k, finite[p_], img, set())  # type: ignore[arg-type]
                        imgs2.append((k, img))
                    judged[p_] += 1
                    if any(_verdict(i) == "clean" for _k, i in imgs2):
                        if tag not in seen_sites:
                            R.ok(r, rel, qn, stmt, "", c.lineno)
                        seen_sites.add(tag)
                        continue
                    own = [(k, i) for k, i in imgs2 if i.lossy and i.kept] or [(k, i) for k, i in imgs2 if i.lossy]
                    if not own:
                        raise AnalysisError(f"{rel}:{qn}: the value handed to the sweep factory for `{p_}` (`{_u(a)[:80]}`) is computed from the configuration in a way that is not understood")
                    k, img = own[0]
                    node, why = img.lossy[0]
                    R.violation(r, rel, qn, stmt, f"the value the sweep factory receives for `{p_}` maps two values of the configuration entry {k!r} to one ({why}): both settings generate the same class and publish the same definition, so configurations that differ only in {k!r} share node semantic id, semantic id and config id", getattr(node, "lineno", c.lineno))
    missing = [p_ for p_ in ident if not judged[p_]]
    if missing:
        raise AnalysisError(f"no call of {create_q} with a value for {missing} read from a configuration mapping was found in the package")


# ---------------------------------------------------------------------------------------------------------
# D6  the configuration that is canonicalised is the declared one
# ---------------------------------------------------------------------------------------------------------

def _same_object_expr(e: ast.AST) -> Optional[str]:
    """Text of an expression that denotes the same object whenever it is evaluated with the same binding of its root
    local: a local, or an attribute chain of one (`cfg.nodes`)."""
    d = dotted_name(e)
    return d if d and isinstance(e, (ast.Name, ast.Attribute)) else None


def _bound_args(tn: ast.AST, call: ast.Call) -> Dict[str, ast.AST]:
    pos = _positional_params(tn, call)
    bound: Dict[str, ast.AST] = dict(zip(pos, call.args)) if not any(isinstance(a, ast.Starred) for a in call.args) else {}
    names = set(pos) | {x.arg for x in tn.args.kwonlyargs}
    bound.update({k.arg: k.value for k in call.keywords if k.arg and k.arg in names})
    return bound


def canonicalised_config_is_declared(repo: Repo, R: Report) -> None:
    """The node uuid is computed from the `parameters` mapping of the node configurations `build_canonical_spec`
    receives.  A caller that hands the very same configuration object to other code first (inspection builds its nodes
    from it) relies on an agreement across that module boundary: that code leaves the entries of the caller-owned
    `parameters` mappings alone.  An entry popped there is missing from the hashed parameter map, so configurations
    that differ only in it get one node uuid, one semantic id and one config id."""
    r = R.rule("C05-D6-canonicalised-config-is-declared-config", "wherever a function hands a configuration object to the canonicaliser that computes the node uuids (directly, or through a constructor / function that passes its parameter on) after having handed the same object to other code of the package, that code - and everything it reaches with the node configurations - never removes or overwrites entries of a caller-owned \"parameters\" mapping (nor the entry itself): the parameter map hashed into the node uuid is the declared one", 1)
    from .c02_rest import _CfgFlow

    gmod = repo.module(GRAPH)
    bcs = repo.func(GRAPH, "build_canonical_spec")
    if not _params_of(bcs):
        raise AnalysisError("build_canonical_spec: configuration parameter not found")
    sinks: Dict[int, Tuple[Module, ast.AST, str]] = {id(bcs): (gmod, bcs, _params_of(bcs)[0])}
    funcs = [(m, qn, f) for m, qn, f in repo.all_functions() if not any(isinstance(a, FuncNode) for a in ancestors(f))]
    resolved: Dict[int, List[Tuple[ast.Call, List[Tuple[Module, ast.AST]]]]] = {}
    for m, _qn, f in funcs:
        rows = []
        for c in calls_in(f):
            if not c.args and not c.keywords:
                continue
            tg = [(tm, tn) for tm, tn in repo.resolve_call(m, c) if isinstance(tn, FuncNode)]
            if tg:
                rows.append((c, tg))
        resolved[id(f)] = rows
    # functions that pass a parameter on to the canonicaliser unchanged are canonicalisers of that parameter too
    for _round in range(4):
        grew = False
        for m, _qn, f in funcs:
            if id(f) in sinks:
                continue
            for c, tg in resolved[id(f)]:
                for tm, tn in tg:
                    if id(tn) not in sinks:
                        continue
                    a = _bound_args(tn, c).get(sinks[id(tn)][2])
                    if isinstance(a, ast.Name) and a.id in _params_of(f) and not name_values(f, a.id):
                        sinks[id(f)] = (m, f, a.id)
                        grew = True
        if not grew:
            break
    clean_spec = {("spec", True, True, frozenset())}
    judged: Dict[Tuple[int, str], List[Tuple[str, str, ast.AST, str]]] = {}
    n_sites = 0
    reported: Set[int] = set()
    for m, qn, f in funcs:
        rows = resolved[id(f)]
        sink_calls = [(c, _bound_args(tn, c).get(sinks[id(tn)][2])) for c, tg in rows for tm, tn in tg if id(tn) in sinks]
        sink_calls = [(c, a) for c, a in sink_calls if a is not None and _same_object_expr(a) is not None]
        if not sink_calls:
            continue
        g: Optional[CFG] = None
        for sc, sarg in sink_calls:
            text = _same_object_expr(sarg)
            root = text.split(".")[0]  # type: ignore[union-attr]
            for oc, tg in rows:
                if oc is sc or any(x is oc for x in ast.walk(sc)) or any(x is sc for x in ast.walk(oc)):
                    continue
                for tm, tn in tg:
                    if tn is f:
                        continue
                    hit = [p for p, a in _bound_args(tn, oc).items() if _same_object_expr(a) == text]
                    if not hit:
                        continue
                    g = g or CFG(f, may_raise=lambda p: set())
                    on, sn = g.nodes_for(stmt_of(oc)), g.nodes_for(stmt_of(sc))
                    if not on or not sn or on[0] == sn[0]:
                        continue
                    if sn[0] not in g.reach([t for t, _l in g.succ[on[0]]]):
                        continue  # the other code only runs after the uuids were computed
                    if {d.id for d in reaching_defs(g, root, on[0])} != {d.id for d in reaching_defs(g, root, sn[0])}:
                        continue  # re-bound in between: another object
                    n_sites += 1
                    for p in hit:
                        key = (id(tn), p)
                        if key not in judged:
                            fl = _CfgFlow(repo)
                            fl.bind_param(tm, tn, p, clean_spec)
                            fl.solve()
                            judged[key] = [t for t in fl.mutations.values() if not (isinstance(t[2], ast.Call) and call_attr(t[2]) == "setdefault")]
                        muts = judged[key]
                        for rel, mqn, node, what in sorted(muts, key=lambda t: (t[0], getattr(t[2], "lineno", 0))):
                            if id(node) in reported:
                                continue
                            reported.add(id(node))
                            R.violation(r, rel, mqn, norm(stmt_of(node))[:110], f"{what}; `{_u(oc)[:60]}` receives `{text}` in {qn} before `{_u(sc)[:60]}` computes the node uuids from the same object: the entry is gone from the parameter map that is hashed, so two configurations that differ only in it get the same node uuid, semantic id and config id (and the uuid differs from the one the run-time path computes)", getattr(node, "lineno", 0))
                        if not muts:
                            R.ok(r, m.rel, qn, f"`{_u(oc)[:60]}` before `{_u(sc)[:60]}` on `{text}`", "", oc.lineno)
    if n_sites == 0:
        raise AnalysisError("no function hands a configuration to other code before canonicalising it (inspect-then-canonicalise sites not found)")


# ---------------------------------------------------------------------------------------------------------
# D1c  the pairs handed to the config id: one per node of the spec
# ---------------------------------------------------------------------------------------------------------

CONFIG_ROLLUP = "compute_pipeline_config_id"
# calls that hand on every element of their (sequence) arguments, one for one
_ELEMENTWISE_CALLS = {"enumerate", "zip", "zip_longest", "list", "tuple", "iter", "sorted", "reversed", "cast", "deepcopy", "copy"}
_ELEMENTWISE_METHODS = {"copy", "values", "items", "keys"}
# calls whose result can have fewer elements than their argument
_THINNING_CALLS = {"set", "frozenset", "filter", "filterfalse", "islice", "takewhile", "dropwhile", "compress", "fromkeys", "unique"}
_SEQ_GROW = {"append", "add", "insert", "extend", "appendleft"}

SeqCut = Tuple[str, str, ast.AST, str]


class _SeqCuts:
    """Constructs that make a per-node sequence *shorter than the traversal it is built from*: a filter clause, a slice,
    a de-duplicating / truncating call, an accumulate loop in which an iteration can end without adding an element
    (`continue`, an `if` without `else` around the append - decided on the control-flow graph: can the loop head be
    reached again from the start of the body without passing a statement that grows the accumulator?) or that is left
    early (`break`).  The sequence is followed backwards through locals, element-wise calls (enumerate / zip / list ..),
    comprehensions, accumulate loops (into the iterable of the loop and into every sequence the loop reads at its
    running position), mapping entries written in the function, and into what functions of the package return.
    What cannot be followed (a parameter, an attribute of some object) is taken as complete: the rule reports
    definite skips only."""

    def __init__(self, repo: Repo) -> None:
        self.repo = repo
        self.out: List[SeqCut] = []
        self._seen: Set[Tuple[int, str]] = set()
        self._seen_fn: Set[int] = set()
        self._cfgs: Dict[int, CFG] = {}

    def cfg(self, fn: ast.AST) -> CFG:
        g = self._cfgs.get(id(fn))
        if g is None:
            g = CFG(fn)  # with exception edges: `try: c = resolve(x)  except E: continue` skips an element too
            self._cfgs[id(fn)] = g
        return g

    def cut(self, rel: str, fn: ast.AST, node: ast.AST, why: str) -> None:
        src = getattr(fn, "_normal_of", fn)
        qn = qualname_of(src) if isinstance(src, FuncNode) else "<module>"
        if not any(n is node for _r, _q, n, _w in self.out):
            self.out.append((rel, qn, node, why))

    # -- expressions ----------------------------------------------------------------------------------------
    def seq(self, rel: str, fn: ast.AST, e: Optional[ast.AST], depth: int = 0) -> None:
        if e is None or depth > 6:
            return
        if isinstance(e, ast.Name):
            self.local(rel, fn, e.id, depth)
        elif isinstance(e, (ast.IfExp,)):
            self.seq(rel, fn, e.body, depth)
            self.seq(rel, fn, e.orelse, depth)
        elif isinstance(e, ast.BoolOp):
            for v in e.values:
                self.seq(rel, fn, v, depth)
        elif isinstance(e, ast.NamedExpr):
            self.seq(rel, fn, e.value, depth)
        elif isinstance(e, ast.Starred):
            self.seq(rel, fn, e.value, depth)
        elif isinstance(e, ast.BinOp) and isinstance(e.op, ast.Add):
            self.seq(rel, fn, e.left, depth)
            self.seq(rel, fn, e.right, depth)
        elif isinstance(e, (ast.ListComp, ast.GeneratorExp, ast.SetComp, ast.DictComp)):
            if isinstance(e, ast.SetComp):
                self.cut(rel, fn, e, f"`{_u(e)[:70]}` keeps one of several equal elements")
            for gen in e.generators:
                for t in gen.ifs:
                    self.cut(rel, fn, t, f"the clause `if {_u(t)[:60]}` of `{_u(e)[:50]}..` leaves elements out")
                self.seq(rel, fn, gen.iter, depth)
            if len(e.generators) == 1:
                tn = {x.id for x in ast.walk(e.generators[0].target) if isinstance(x, ast.Name)}
                for b in ([e.key, e.value] if isinstance(e, ast.DictComp) else [e.elt]):
                    self.aligned(rel, fn, b, tn, None, depth)
        elif isinstance(e, ast.Subscript):
            if isinstance(e.slice, ast.Slice):
                self.cut(rel, fn, e, f"`{_u(e)[:70]}` keeps a slice")
                self.seq(rel, fn, e.value, depth)
            elif isinstance(e.slice, ast.Constant) and isinstance(e.slice.value, str):
                self.entry(rel, fn, e.value, e.slice.value, depth)
        elif isinstance(e, ast.Call):
            nm = call_attr(e)
            if nm in _THINNING_CALLS:
                self.cut(rel, fn, e, f"`{_u(e)[:70]}` can return fewer elements than it receives")
                for a in e.args:
                    self.seq(rel, fn, a, depth)
            elif isinstance(e.func, ast.Attribute) and nm == "get" and e.args and isinstance(e.args[0], ast.Constant) and isinstance(e.args[0].value, str):
                self.entry(rel, fn, e.func.value, e.args[0].value, depth)
            elif isinstance(e.func, ast.Attribute) and nm in _ELEMENTWISE_METHODS and not e.args:
                self.seq(rel, fn, e.func.value, depth)
            elif isinstance(e.func, ast.Name) and nm in _ELEMENTWISE_CALLS:
                for a in (e.args[-1:] if nm == "cast" else e.args):
                    self.seq(rel, fn, a, depth)
            else:
                self.callee(rel, fn, e, depth)

    def entry(self, rel: str, fn: ast.AST, recv: ast.AST, key: str, depth: int) -> None:
        """The sequence read from the entry *key* of the mapping *recv*: what this function wrote there."""
        try:
            vals = mapping_items(self.repo, rel, fn, recv).get(key, [])
        except AnalysisError:
            vals = []
        for v in vals:
            self.seq(rel, fn, v, depth + 1)

    def callee(self, rel: str, fn: ast.AST, call: ast.Call, depth: int) -> None:
        mod = self.repo.module(rel)
        targets: List[Tuple[Module, ast.AST]] = []
        hit = _local_callee(self.repo, rel, fn, call)
        if hit is not None and isinstance(mod.defs.get(hit[0]), FuncNode):
            targets = [(mod, mod.defs[hit[0]])]
        else:
            try:
                targets = [(tm, tn) for tm, tn in self.repo.resolve_call(mod, call) if isinstance(tn, FuncNode) and tm.defs.get(qualname_of(tn)) is tn]
            except Exception:  # a call inside a normal form without the links the resolver wants: not followed
                targets = []
            if not targets and isinstance(call.func, ast.Attribute) and dotted_name(call.func.value) in ("self", "cls"):
                cands = [(qn, n) for qn, n in mod.defs.items() if isinstance(n, FuncNode) and "." in qn and qn.rpartition(".")[2] == call.func.attr]
                targets = [(mod, n) for _qn, n in cands]
        for tm, tn in targets:
            if id(tn) in self._seen_fn or tn.name == "__init__":
                continue
            self._seen_fn.add(id(tn))
            self.repo.consulted.add(tm.rel)
            nf = nfunc(self.repo, tm.rel, qualname_of(tn))
            for r in walk_no_nested(nf):
                if isinstance(r, ast.Return) and r.value is not None:
                    self.seq(tm.rel, nf, r.value, depth + 1)

    # -- locals: bindings and accumulate loops -------------------------------------------------------------
    def local(self, rel: str, fn: ast.AST, name: str, depth: int) -> None:
        if (id(fn), name) in self._seen:
            return
        self._seen.add((id(fn), name))
        for v in assigned_value(fn, name):
            if not _is_empty_container(v):
                self.seq(rel, fn, v, depth + 1)
        grows: Dict[int, Tuple[ast.AST, List[Tuple[ast.AST, List[ast.AST]]]]] = {}  # loop -> (loop, [(statement, values)])
        for n in _fn_stmts(fn):
            vals: Optional[List[ast.AST]] = None
            if isinstance(n, ast.Call) and isinstance(n.func, ast.Attribute) and n.func.attr in _SEQ_GROW and isinstance(n.func.value, ast.Name) and n.func.value.id == name:
                vals = list(n.args[-1:])
                if n.func.attr == "extend":
                    for a in n.args:
                        self.seq(rel, fn, a, depth + 1)
            elif isinstance(n, ast.AugAssign) and isinstance(n.op, ast.Add) and isinstance(n.target, ast.Name) and n.target.id == name:
                vals = list(n.value.elts) if isinstance(n.value, (ast.List, ast.Tuple)) else []
                if not isinstance(n.value, (ast.List, ast.Tuple)):
                    self.seq(rel, fn, n.value, depth + 1)
            if vals is None:
                continue
            st = n if isinstance(n, ast.stmt) else stmt_of(n)
            loop = next((a for a in ancestors(st) if isinstance(a, (ast.For, ast.AsyncFor, ast.While)) and any(a is x for x in ast.walk(fn))), None)
            if loop is not None:
                grows.setdefault(id(loop), (loop, []))[1].append((st, vals))
        for loop, sites in grows.values():
            self.loop(rel, fn, name, loop, sites, depth)

    def loop(self, rel: str, fn: ast.AST, name: str, loop: ast.AST, sites: List[Tuple[ast.AST, List[ast.AST]]], depth: int) -> None:
        g = self.cfg(fn)
        heads = g.nodes_for(loop)
        grow_nodes = {nid for st, _v in sites for nid in g.nodes_for(st)}
        if heads and grow_nodes:
            head = heads[0]
            # an iteration that ends without a new element
            starts = [t for t, lab in g.succ[head] if lab == "T" and t not in grow_nodes]
            seen = g.reach(starts, blocked=grow_nodes | {head})
            back = [n for n in seen if any(t == head for t, _l in g.succ[n])]
            if back:
                last = g.nodes[sorted(back, key=lambda i: g.nodes[i].line)[0]]
                cond = next((a for a in [last.ast] + list(ancestors(last.ast)) if isinstance(a, ast.If) and any(a is x for x in ast.walk(loop))), None) if last.ast is not None else None
                node = last.ast if isinstance(last.ast, ast.Continue) else (cond or loop)
                how = f"`continue` under `if {_u(cond.test)[:60]}`" if isinstance(last.ast, ast.Continue) and cond is not None else f"the element is added only under `if {_u(cond.test)[:60]}`" if cond is not None else "a path through the body passes no statement that adds one"
                self.cut(rel, fn, node, f"an iteration of `for {_u(getattr(loop, 'target', None))} in {_u(getattr(loop, 'iter', None))[:50]}` can end without adding an element to `{name}` ({how})")
            for n in ast.walk(loop):
                if isinstance(n, ast.Break) and next((a for a in ancestors(n) if isinstance(a, (ast.For, ast.AsyncFor, ast.While))), None) is loop:
                    self.cut(rel, fn, n, f"`break` leaves the traversal that fills `{name}` before every element was visited")
        if isinstance(loop, (ast.For, ast.AsyncFor)):
            self.seq(rel, fn, loop.iter, depth + 1)
            tn = {x.id for x in ast.walk(loop.target) if isinstance(x, ast.Name)}
            for _st, vals in sites:
                for v in vals:
                    self.aligned(rel, fn, v, tn, loop, depth)

    def aligned(self, rel: str, fn: ast.AST, value: ast.AST, index_names: Set[str], loop: Optional[ast.AST], depth: int) -> None:
        """Sequences read at the running position of the traversal (`uuids[index]`) on the way into *value*: paired with
        the traversed sequence by position, so they have to be complete as well."""
        nodes = flow(fn, value) if loop is not None else list(ast.walk(value))
        for x in nodes:
            if isinstance(x, ast.Subscript) and isinstance(x.ctx, ast.Load) and isinstance(x.slice, ast.Name) and x.slice.id in index_names:
                if loop is not None and not any(a is loop for a in ancestors(x)):
                    continue
                self.seq(rel, fn, x.value, depth + 1)


def config_pairs_cover_every_node(repo: Repo, R: Report) -> None:
    """The config id is a hash of the (node uuid, node semantic id) pairs its caller collected.  `compute_pipeline_config_id`
    hashes what it is given (D1); that every node of the spec *is* given is an agreement with each caller: the list of
    pairs - and every per-node sequence it is assembled from by position (resolved classes, uuids) - holds one element
    per node.  A sequence that skips a node (a `continue` in the loop that resolves the processor classes) shifts the
    positional pairing: the last nodes never enter the pairs, so a change of their processor or parameters leaves the
    config id where it was."""
    r = R.rule("C05-D1c-config-pairs-one-per-node", "every function of the package that computes the config id hands over one (uuid, semantic id) pair per node of the spec: the list of pairs and every per-node sequence it is assembled from by position (followed through locals, accumulate loops, comprehensions, element-wise calls and into what functions of the package return) is built without skipping an element - no filter clause, slice, de-duplication, `break`, and no iteration of an accumulate loop that can end without adding an element (control-flow graph)", 2)
    callers: List[Tuple[str, str]] = []
    for mod, qn, node in repo.all_functions():
        if any(isinstance(a, FuncNode) for a in ancestors(node)):
            continue
        if qn == CONFIG_ROLLUP and mod.rel == SEM:
            continue
        if any(call_attr(c) == CONFIG_ROLLUP for c in calls_in(node)):
            callers.append((mod.rel, qn))
    for rel, qn in sorted(callers):
        repo.consulted.add(rel)
        fn = nfunc(repo, rel, qn)
        for c in calls_in(fn):
            if call_attr(c) != CONFIG_ROLLUP:
                continue
            arg = c.args[0] if c.args else (c.keywords[0].value if c.keywords else None)
            if arg is None:
                R.violation(r, rel, qn, norm(stmt_of(c))[:110], "the config id is computed from no pairs at all", c.lineno)
                continue
            sc = _SeqCuts(repo)
            sc.seq(rel, fn, arg)
            for crel, cqn, node, why in sc.out:
                st = node if isinstance(node, ast.stmt) and not isinstance(node, (ast.For, ast.While, ast.If)) else None
                text = norm(st)[:110] if st is not None else (f"if {_u(node.test)[:90]}:" if isinstance(node, ast.If) else f"for {_u(node.target)} in {_u(node.iter)[:70]}:" if isinstance(node, ast.For) else _u(node)[:110])
                R.violation(r, crel, cqn, text, f"a per-node sequence on the way into `{_u(c)[:60]}` ({qn}) does not hold one element per node: {why}; the pairs are assembled by position, so every node left out shifts the pairing and the last nodes of the pipeline never reach the config id - changing their processor or a parameter value leaves the config id unchanged", getattr(node, "lineno", c.lineno))
            if not sc.out:
                R.ok(r, rel, qn, f"`{_u(c)[:70]}`: one pair per node", "", c.lineno)


# ---------------------------------------------------------------------------------------------------------
# D1d  a roll-up that keys the pairs by one component is keyed by the node uuid at every caller
# ---------------------------------------------------------------------------------------------------------

NODE_SEM = "compute_node_semantic_id"
UUID_KEYS = {"node_uuid", "uuid"}
_PAIR_WRAPPERS = {"list", "tuple", "sorted", "reversed", "iter", "cast", "deepcopy", "copy"}
_STR_WRAPPERS = {"str", "cast"}


def _pairs_perm(fn: ast.AST, e: Optional[ast.AST], roots: Set[str], _seen: Optional[Set[str]] = None) -> Optional[Tuple[int, int]]:
    """*e* is the sequence of pairs the function received (one of *roots*), re-listed / sorted / copied, possibly
    with the two components re-arranged by a comprehension: the permutation (component 0 of an element of *e* is
    component perm[0] of the pair received).  None: not (recognisably) the received pairs."""
    _seen = _seen if _seen is not None else set()
    if isinstance(e, ast.Name):
        if e.id in roots:
            return (0, 1)
        if e.id in _seen:
            return None
        _seen.add(e.id)
        vals = assigned_value(fn, e.id)
        perms = {_pairs_perm(fn, v, roots, _seen) for v in vals}
        return perms.pop() if len(perms) == 1 else None
    if isinstance(e, ast.Call):
        nm = call_attr(e)
        if isinstance(e.func, ast.Name) and nm in _PAIR_WRAPPERS and e.args:
            return _pairs_perm(fn, e.args[-1] if nm == "cast" else e.args[0], roots, _seen)
        if isinstance(e.func, ast.Attribute) and nm == "copy" and not e.args:
            return _pairs_perm(fn, e.func.value, roots, _seen)
        return None
    if isinstance(e, (ast.ListComp, ast.GeneratorExp)) and len(e.generators) == 1 and not e.generators[0].ifs:
        g = e.generators[0]
        inner = _pairs_perm(fn, g.iter, roots, _seen)
        if inner is None:
            return None
        if isinstance(e.elt, ast.Name) and isinstance(g.target, ast.Name) and e.elt.id == g.target.id:
            return inner
        if isinstance(e.elt, ast.Tuple) and len(e.elt.elts) == 2:
            idx = [_component_indices(c, g.target) for c in e.elt.elts]
            if all(i is not None and len(i) == 1 for i in idx):
                a, b = (next(iter(i)) for i in idx)
                return (inner[a], inner[b])
    return None


def _component_indices(k: ast.AST, target: ast.AST) -> Optional[Set[int]]:
    """The components of the pair bound to *target* (a `(a, b)` tuple of names, or one name read as `p[0]` / `p[1]`)
    that the expression *k* is computed from; None when the binding has another shape."""
    names = {x.id for x in ast.walk(k) if isinstance(x, ast.Name)}
    if isinstance(target, (ast.Tuple, ast.List)) and len(target.elts) == 2 and all(isinstance(t, ast.Name) for t in target.elts):
        return {i for i, t in enumerate(target.elts) if t.id in names}
    if isinstance(target, ast.Name):
        out: Set[int] = set()
        sub_ids: Set[int] = set()
        for x in ast.walk(k):
            if isinstance(x, ast.Subscript) and isinstance(x.value, ast.Name) and x.value.id == target.id and isinstance(x.slice, ast.Constant) and x.slice.value in (0, 1, -1, -2):
                out.add(x.slice.value % 2)
                sub_ids.add(id(x.value))
        if any(isinstance(x, ast.Name) and x.id == target.id and id(x) not in sub_ids for x in ast.walk(k)):
            return {0, 1}
        return out
    return None


def _keyed_collapses(fn: ast.AST, hashed: List[ast.AST], roots: Set[str]) -> List[Tuple[ast.AST, Set[int], str]]:
    """Constructs on the way from the received pairs to the hashed value that keep ONE pair per value of a key computed
    from the pair: `dict(pairs)`, a mapping comprehension / a loop of subscript stores over the pairs, `set(pairs)` ..
    -> (construct, components of the received pair the key is computed from, wording)."""
    out: List[Tuple[ast.AST, Set[int], str]] = []
    hashed_ids = {id(x) for x in hashed}
    hashed_names = {x.id for x in hashed if isinstance(x, ast.Name)}
    for x in hashed:
        if isinstance(x, ast.Call):
            nm = call_attr(x)
            if nm in ("dict", "OrderedDict") and len(x.args) == 1 and isinstance(x.func, ast.Name):
                p = _pairs_perm(fn, x.args[0], roots)
                if p is not None:
                    out.append((x, {p[0]}, f"`{_u(x)[:60]}` keeps one pair per first component"))
            elif nm in ("set", "frozenset", "fromkeys") and x.args:
                p = _pairs_perm(fn, x.args[0], roots)
                if p is not None:
                    out.append((x, {0, 1}, f"`{_u(x)[:60]}` keeps one of several equal pairs"))
        elif isinstance(x, (ast.DictComp, ast.SetComp)) and len(x.generators) == 1:
            g = x.generators[0]
            p = _pairs_perm(fn, g.iter, roots)
            if p is None:
                continue
            k = x.key if isinstance(x, ast.DictComp) else x.elt
            idx = _component_indices(k, g.target)
            if idx is not None:
                out.append((x, {p[i] for i in idx}, f"`{_u(x)[:70]}` keeps one pair per value of `{_u(k)[:40]}`"))
    for n in _fn_stmts(fn):
        if not isinstance(n, (ast.For, ast.AsyncFor)):
            continue
        p = _pairs_perm(fn, n.iter, roots)
        if p is None:
            continue
        for s in ast.walk(n):
            k: Optional[ast.AST] = None
            recv: Optional[ast.AST] = None
            if isinstance(s, ast.Assign):
                for t in s.targets:
                    if isinstance(t, ast.Subscript) and isinstance(t.value, ast.Name):
                        k, recv = t.slice, t.value
            elif isinstance(s, ast.Call) and isinstance(s.func, ast.Attribute) and s.func.attr in ("setdefault", "__setitem__") and s.args and isinstance(s.func.value, ast.Name):
                k, recv = s.args[0], s.func.value
            elif isinstance(s, ast.Call) and isinstance(s.func, ast.Attribute) and s.func.attr == "add" and len(s.args) == 1 and isinstance(s.func.value, ast.Name):
                k, recv = s.args[0], s.func.value
            if k is None or recv is None or recv.id not in hashed_names:
                continue
            kk = k
            if isinstance(k, ast.Name):  # a key named in the loop body
                inner = [v for v in assigned_value(fn, k.id) if any(a is n for a in ancestors(v))]
                if len(inner) == 1:
                    kk = inner[0]
            idx = _component_indices(kk, n.target)
            if idx is not None:
                out.append((s, {p[i] for i in idx}, f"`{norm(s if isinstance(s, ast.stmt) else stmt_of(s))[:70]}` keeps one pair per value of `{_u(kk)[:40]}`"))
    _ = hashed_ids
    return out


def _iteration_bindings(fn: ast.AST) -> Dict[str, List[ast.AST]]:
    """name -> sequences whose elements it is bound to (for / comprehension targets, also as the element of enumerate)."""
    out: Dict[str, List[ast.AST]] = {}

    def bind(target: ast.AST, it: ast.AST) -> None:
        if isinstance(it, ast.Call) and call_attr(it) == "enumerate" and it.args and isinstance(target, (ast.Tuple, ast.List)) and len(target.elts) == 2:
            bind(target.elts[1], it.args[0])
        elif isinstance(target, ast.Name):
            out.setdefault(target.id, []).append(it)

    for n in _fn_stmts(fn):
        if isinstance(n, (ast.For, ast.AsyncFor)):
            bind(n.target, n.iter)
        elif isinstance(n, ast.comprehension):
            bind(n.target, n.iter)
    return out


def _elements_of(fn: ast.AST, seq: Optional[ast.AST], _seen: Optional[Set[str]] = None) -> List[ast.AST]:
    """Expressions that become elements of the sequence *seq* built in *fn* (appended values, comprehension elements,
    list displays), through copies; [] when it is not built here."""
    _seen = _seen if _seen is not None else set()
    if isinstance(seq, ast.Name):
        if seq.id in _seen:
            return []
        _seen.add(seq.id)
        out: List[ast.AST] = []
        for v in assigned_value(fn, seq.id):
            out.extend(_elements_of(fn, v, _seen))
        for n in _fn_stmts(fn):
            if isinstance(n, ast.Call) and isinstance(n.func, ast.Attribute) and isinstance(n.func.value, ast.Name) and n.func.value.id == seq.id:
                if n.func.attr in ("append", "add", "appendleft") and len(n.args) == 1:
                    out.append(n.args[0])
                elif n.func.attr == "insert" and len(n.args) == 2:
                    out.append(n.args[1])
                elif n.func.attr == "extend" and n.args:
                    out.extend(_elements_of(fn, n.args[0], _seen))
            elif isinstance(n, ast.AugAssign) and isinstance(n.op, ast.Add) and isinstance(n.target, ast.Name) and n.target.id == seq.id:
                out.extend(_elements_of(fn, n.value, _seen))
        return out
    if isinstance(seq, (ast.List, ast.Tuple, ast.Set)):
        return [e for e in seq.elts if not isinstance(e, ast.Starred)]
    if isinstance(seq, (ast.ListComp, ast.GeneratorExp, ast.SetComp)):
        return [seq.elt]
    if isinstance(seq, ast.Call):
        nm = call_attr(seq)
        if isinstance(seq.func, ast.Name) and nm in _PAIR_WRAPPERS and seq.args:
            return _elements_of(fn, seq.args[-1] if nm == "cast" else seq.args[0], _seen)
        if isinstance(seq.func, ast.Attribute) and nm == "copy" and not seq.args:
            return _elements_of(fn, seq.func.value, _seen)
    if isinstance(seq, ast.IfExp):
        return _elements_of(fn, seq.body, _seen) + _elements_of(fn, seq.orelse, _seen)
    return []


class _PairSite:
    def __init__(self, node: ast.AST, comps: List[Optional[ast.AST]], keyed: bool) -> None:
        self.node, self.comps, self.keyed = node, comps, keyed


def _pair_sites(fn: ast.AST, seq: Optional[ast.AST], _seen: Optional[Set[str]] = None) -> List[_PairSite]:
    """Where the elements of the pair sequence *seq* are put together in *fn*: 2-tuples (appended, comprehension
    elements, displays), `zip(A, B)` (components: the elements of A and of B) and the items of a mapping built here
    (components: key and value; *keyed*: one pair per key)."""
    _seen = _seen if _seen is not None else set()
    out: List[_PairSite] = []
    if isinstance(seq, ast.Call):
        nm = call_attr(seq)
        if isinstance(seq.func, ast.Name) and nm == "zip" and len(seq.args) == 2:
            comps: List[Optional[ast.AST]] = []
            for a in seq.args:
                els = _elements_of(fn, a)
                comps.append(els[0] if len(els) == 1 else None)
            return [_PairSite(seq, comps, False)]
        if isinstance(seq.func, ast.Name) and nm in _PAIR_WRAPPERS and seq.args:
            return _pair_sites(fn, seq.args[-1] if nm == "cast" else seq.args[0], _seen)
        if isinstance(seq.func, ast.Attribute) and nm == "copy" and not seq.args:
            return _pair_sites(fn, seq.func.value, _seen)
        if isinstance(seq.func, ast.Attribute) and nm == "items" and not seq.args:
            return _mapping_sites(fn, seq.func.value, set())
        return []
    if isinstance(seq, ast.Name):
        if seq.id in _seen:
            return []
        _seen.add(seq.id)
        for v in assigned_value(fn, seq.id):
            if not _is_empty_container(v):
                out.extend(_pair_sites(fn, v, _seen))
        for n in _fn_stmts(fn):
            if isinstance(n, ast.Call) and isinstance(n.func, ast.Attribute) and isinstance(n.func.value, ast.Name) and n.func.value.id == seq.id:
                if n.func.attr in ("append", "appendleft", "add") and len(n.args) == 1:
                    out.extend(_pair_elt(fn, n.args[0], n))
                elif n.func.attr == "insert" and len(n.args) == 2:
                    out.extend(_pair_elt(fn, n.args[1], n))
                elif n.func.attr == "extend" and n.args:
                    out.extend(_pair_sites(fn, n.args[0], _seen))
            elif isinstance(n, ast.AugAssign) and isinstance(n.op, ast.Add) and isinstance(n.target, ast.Name) and n.target.id == seq.id:
                out.extend(_pair_sites(fn, n.value, _seen))
        return out
    if isinstance(seq, (ast.List, ast.Tuple)):
        for e in seq.elts:
            out.extend(_pair_elt(fn, e, e))
        return out
    if isinstance(seq, (ast.ListComp, ast.GeneratorExp)) and len(seq.generators) == 1:
        g = seq.generators[0]
        if isinstance(seq.elt, ast.Name) and isinstance(g.target, ast.Name) and seq.elt.id == g.target.id:
            return _pair_sites(fn, g.iter, _seen)
        return _pair_elt(fn, seq.elt, seq)
    if isinstance(seq, ast.IfExp):
        return _pair_sites(fn, seq.body, _seen) + _pair_sites(fn, seq.orelse, _seen)
    return out


def _pair_elt(fn: ast.AST, e: ast.AST, site: ast.AST) -> List[_PairSite]:
    if isinstance(e, ast.Tuple) and len(e.elts) == 2 and not any(isinstance(x, ast.Starred) for x in e.elts):
        return [_PairSite(site, list(e.elts), False)]
    if isinstance(e, ast.Name):
        vals = assigned_value(fn, e.id)
        if len(vals) == 1 and isinstance(vals[0], ast.Tuple) and len(vals[0].elts) == 2:
            return [_PairSite(site, list(vals[0].elts), False)]
    return []


def _mapping_sites(fn: ast.AST, m: Optional[ast.AST], _seen: Set[str]) -> List[_PairSite]:
    """(key, value) of every way the mapping *m* is filled in *fn*."""
    out: List[_PairSite] = []
    if isinstance(m, ast.DictComp):
        return [_PairSite(m, [m.key, m.value], True)]
    if isinstance(m, ast.Call) and call_attr(m) in ("dict", "OrderedDict") and len(m.args) == 1 and not m.keywords:
        inner = _pair_sites(fn, m.args[0])
        return [_PairSite(m, s.comps, True) for s in inner]
    if isinstance(m, ast.Name) and m.id not in _seen:
        _seen.add(m.id)
        for v in assigned_value(fn, m.id):
            if not _is_empty_container(v):
                out.extend(_mapping_sites(fn, v, _seen))
        for n in _fn_stmts(fn):
            if isinstance(n, ast.Assign):
                for t in n.targets:
                    if isinstance(t, ast.Subscript) and isinstance(t.value, ast.Name) and t.value.id == m.id and not isinstance(t.slice, ast.Constant):
                        out.append(_PairSite(n, [t.slice, n.value], True))
            elif isinstance(n, ast.Call) and isinstance(n.func, ast.Attribute) and n.func.attr in ("setdefault", "__setitem__") and len(n.args) == 2 and isinstance(n.func.value, ast.Name) and n.func.value.id == m.id and not isinstance(n.args[0], ast.Constant):
                out.append(_PairSite(n, [n.args[0], n.args[1]], True))
    return out


def _identity_role(repo: Repo, rel: str, fn: ast.AST, e: Optional[ast.AST], binds: Dict[str, List[ast.AST]], depth: int = 0, _seen: Optional[Set[str]] = None) -> Set[str]:
    """What a component of a pair is, by where its value comes from: "uuid" (read from the node-uuid entry of a node
    mapping - distinct for every node of a pipeline), "sem" (computed by the node semantic id function or read from a
    node-semantic-id entry: the same for every node without sweep and for identical sweeps), "other".  Constant
    fall-backs ("" / "none" / "error") are left out."""
    _seen = _seen if _seen is not None else set()
    out: Set[str] = set()
    if e is None or depth > 6:
        return {"other"}
    for alt in alternatives(fn, e):
        if isinstance(alt, ast.Constant):
            continue
        if isinstance(alt, ast.BoolOp):
            for v in alt.values:
                out |= _identity_role(repo, rel, fn, v, binds, depth + 1, _seen)
            continue
        if isinstance(alt, ast.Call) and call_attr(alt) == NODE_SEM:
            out.add("sem")
            continue
        if isinstance(alt, ast.Call) and isinstance(alt.func, ast.Name) and call_attr(alt) in _STR_WRAPPERS and alt.args:
            out |= _identity_role(repo, rel, fn, alt.args[-1], binds, depth + 1, _seen)
            continue
        key: object = None
        base: Optional[ast.AST] = None
        if isinstance(alt, ast.Subscript) and isinstance(alt.slice, ast.Constant) and isinstance(alt.slice.value, str):
            key, base = alt.slice.value, alt.value
        elif isinstance(alt, ast.Call) and call_attr(alt) == "get" and isinstance(alt.func, ast.Attribute) and alt.args and isinstance(alt.args[0], ast.Constant) and isinstance(alt.args[0].value, str):
            key, base = alt.args[0].value, alt.func.value
            for d in alt.args[1:2]:
                out |= _identity_role(repo, rel, fn, d, binds, depth + 1, _seen)
        if key is not None:
            vals: List[ast.AST] = []
            if isinstance(base, ast.Name):
                for seq in binds.get(base.id, []):
                    for el in _elements_of(fn, seq):
                        try:
                            vals.extend(mapping_items(repo, rel, fn, el).get(key, []))
                        except AnalysisError:
                            pass
            tag = f"{id(fn)}:{key}:{_u(base)}"
            if vals and tag not in _seen:
                _seen.add(tag)
                for v in vals:
                    out |= _identity_role(repo, rel, fn, v, binds, depth + 1, _seen)
            elif key in UUID_KEYS:
                out.add("uuid")
            elif isinstance(key, str) and "semantic_id" in key:
                out.add("sem")
            else:
                out.add("other")
            continue
        if isinstance(alt, ast.Subscript) and not isinstance(alt.slice, ast.Slice):  # the element at a running position
            els = _elements_of(fn, alt.value)
            if els:
                for el in els:
                    out |= _identity_role(repo, rel, fn, el, binds, depth + 1, _seen)
            else:
                out.add("other")
            continue
        if isinstance(alt, ast.Name) and alt.id in binds and alt.id not in _seen:  # an element of a sequence built here
            _seen.add(alt.id)
            els = [el for seq in binds[alt.id] for el in _elements_of(fn, seq)]
            if els:
                for el in els:
                    out |= _identity_role(repo, rel, fn, el, binds, depth + 1, _seen)
                continue
        out.add("other")
    return out


def config_pairs_keyed_by_uuid(repo: Repo, R: Report) -> None:
    """`compute_pipeline_config_id` and its callers agree on what a pair is.  As long as the roll-up hashes the pairs as
    a sequence, the order of the components only changes the value.  A roll-up that turns the pairs into a mapping / set
    (`dict(pairs)`, `{a: b for a, b in pairs}`) keeps ONE pair per key: that loses nothing only when the key component
    is, at every caller, the node uuid (distinct for every node of a pipeline).  Keyed by the node semantic id - "none"
    for every node without sweep - all plain nodes collapse into one entry and a change of any but the last of them
    never reaches the config id.  The same holds for a caller that collects the pairs in a mapping of its own and hands
    over its items."""
    r = R.rule("C05-D1d-config-pairs-keyed-by-node-uuid", "the config id covers one pair per node: where the roll-up (or a caller, before handing the pairs over) turns the (uuid, semantic id) pairs into a mapping / set - one pair per value of a key component - the key component is, at every call site of the package, the node uuid (read from the node-uuid entry of the canonical node), never the node semantic id, which all nodes without sweep and all identical sweeps share; a roll-up that hashes the pairs as a sequence (sorted or not) keeps them all", 1)
    cpc = NF(repo, SEM, CONFIG_ROLLUP)
    roots = set(_params_of(cpc)[:1])
    rets = [x.value for x in walk_no_nested(cpc) if isinstance(x, ast.Return) and x.value is not None]
    hashed = [x for rv in rets for c in calls_to(flow(cpc, rv), "dumps", "_sha256_json") if c.args for x in flow(cpc, c.args[0])]
    if not hashed:
        hashed = [x for rv in rets for x in flow(cpc, rv)]
    keyed = _keyed_collapses(cpc, hashed, roots)
    callers: List[Tuple[str, str]] = []
    for mod, qn, node in repo.all_functions():
        if any(isinstance(a, FuncNode) for a in ancestors(node)):
            continue
        if qn == CONFIG_ROLLUP and mod.rel == SEM:
            continue
        if any(call_attr(c) == CONFIG_ROLLUP for c in calls_in(node)):
            callers.append((mod.rel, qn))
    sites: List[Tuple[str, str, ast.Call, ast.AST, _PairSite, List[Set[str]]]] = []
    for rel, qn in sorted(callers):
        repo.consulted.add(rel)
        fn = nfunc(repo, rel, qn)
        binds = _iteration_bindings(fn)
        for c in calls_in(fn):
            if call_attr(c) != CONFIG_ROLLUP:
                continue
            arg = c.args[0] if c.args else (c.keywords[0].value if c.keywords else None)
            found = _pair_sites(fn, arg)
            for s in found:
                roles = [_identity_role(repo, rel, fn, comp, binds) for comp in s.comps]
                sites.append((rel, qn, c, fn, s, roles))
            if keyed and not found:
                raise AnalysisError(f"{rel}:{qn}: the roll-up keys the pairs by a component, but where `{_u(arg)[:60]}` gets its pairs was not found")

    def describe(s: _PairSite) -> str:
        return f"({', '.join(_u(c)[:40] if c is not None else '?' for c in s.comps)})"

    # a caller that collects the pairs in a mapping of its own
    for rel, qn, c, fn, s, roles in sites:
        if not s.keyed:
            continue
        kr = roles[0]
        st = s.node if isinstance(s.node, ast.stmt) else stmt_of(s.node)
        if kr == {"uuid"}:
            R.ok(r, rel, qn, f"pairs collected in a mapping keyed by the node uuid: `{norm(st)[:70]}`", "", getattr(s.node, "lineno", c.lineno))
        elif "sem" in kr or not kr:
            R.violation(r, rel, qn, norm(st)[:110], f"the pairs handed to `{_u(c)[:50]}` are the items of a mapping keyed by `{_u(s.comps[0])[:50]}`, which is {'the node semantic id' if 'sem' in kr else 'a constant'}, not the node uuid: nodes that share it (every node without sweep has 'none') collapse into one pair - changing the processor or a parameter of any but the last of them leaves the config id unchanged", getattr(s.node, "lineno", c.lineno))
    if not keyed:
        R.ok(r, SEM, CONFIG_ROLLUP, "the pairs are hashed as a sequence (no mapping / set on the way)", "", cpc.lineno)
        return
    for node, comps, wording in keyed:
        for rel, qn, c, fn, s, roles in sites:
            if any(roles[i] == {"uuid"} for i in comps if i < len(roles)):
                R.ok(r, SEM, CONFIG_ROLLUP, f"{wording}; {qn} puts the node uuid there: {describe(s)}", "", getattr(node, "lineno", cpc.lineno))
                continue
            kr = set().union(*[roles[i] for i in comps if i < len(roles)]) if comps else set()
            if "other" in kr and "sem" not in kr:
                raise AnalysisError(f"{SEM}:{CONFIG_ROLLUP} keys the pairs by a component ({wording}); what {rel}:{qn} puts there ({describe(s)}) could not be classified")
            what = "the node semantic id" if "sem" in kr else "no component of the pair that differs from node to node"
            R.violation(r, SEM, CONFIG_ROLLUP, norm(node if isinstance(node, ast.stmt) else stmt_of(node))[:110], f"{wording}, and {rel}:{qn} (line {getattr(s.node, 'lineno', c.lineno)}) hands over pairs {describe(s)} whose key component is {what}, not the node uuid: the nodes that share it (every node without sweep has the node semantic id 'none', identical sweeps share theirs) collapse into one pair and only the last one's uuid is hashed - changing the processor or a parameter value of another of them leaves the config id unchanged", getattr(node, "lineno", cpc.lineno))


# ---------------------------------------------------------------------------------------------------------
# D3d  the classes the domain signature tells apart by name are the classes the package builds domains from
# ---------------------------------------------------------------------------------------------------------

def _reads_class_name(nodes: Iterable[ast.AST]) -> bool:
    return any(isinstance(x, ast.Attribute) and x.attr in ("__name__", "__qualname__") for x in nodes)


def _signature_dispatch(repo: Repo, rel: str, fn: ast.AST) -> Tuple[Set[str], List[ast.AST], List[ast.AST]]:
    """How the function *fn* (normal form, closures included) tells the kinds of its argument apart:
    (class names it compares the *name of the class* of the argument with - equality, membership, `match`, keys of a
    dispatch table looked up with that name -, class expressions of `type(x) is C` / `type(x) == C` tests,
    class expressions of `isinstance(x, C)` tests)."""
    mod = repo.module(rel)
    names: Set[str] = set()
    exact: List[ast.AST] = []
    inst: List[ast.AST] = []

    def strings(e: ast.AST) -> Set[str]:
        return _module_strings(mod, e)

    def about_class_name(e: ast.AST) -> bool:
        return _reads_class_name(flow(fn, e))

    def is_type_call(e: ast.AST) -> bool:
        return (isinstance(e, ast.Call) and call_attr(e) == "type" and len(e.args) == 1) or (isinstance(e, ast.Attribute) and e.attr == "__class__")

    for x in ast.walk(fn):
        if isinstance(x, ast.Compare):
            sides = [x.left] + list(x.comparators)
            if any(about_class_name(s) for s in sides):
                for s in sides:
                    if not about_class_name(s):
                        names |= strings(s)
            elif any(is_type_call(s) or any(is_type_call(v) for v in flow(fn, s) if isinstance(s, ast.Name)) for s in sides):
                for s in sides:
                    if not is_type_call(s):
                        exact.extend(s.elts if isinstance(s, (ast.Tuple, ast.List, ast.Set)) else [s])
        elif isinstance(x, ast.Call) and call_attr(x) == "isinstance" and len(x.args) == 2:
            c = x.args[1]
            inst.extend(c.elts if isinstance(c, ast.Tuple) else [c])
        elif isinstance(x, ast.Call) and isinstance(x.func, ast.Attribute) and x.func.attr == "get" and x.args and about_class_name(x.args[0]):
            names |= _table_keys(mod, fn, x.func.value)
        elif isinstance(x, ast.Subscript) and isinstance(x.ctx, ast.Load) and not isinstance(x.slice, (ast.Constant, ast.Slice)) and about_class_name(x.slice):
            names |= _table_keys(mod, fn, x.value)
        elif type(x).__name__ == "Match" and about_class_name(x.subject):
            for case in x.cases:
                for p in ast.walk(case.pattern):
                    if type(p).__name__ == "MatchValue":
                        names |= strings(p.value)
    return names, exact, inst


def _table_keys(mod: Module, fn: ast.AST, table: ast.AST, depth: int = 0) -> Set[str]:
    """String keys of the mapping a dispatch table expression denotes (a literal, `dict(k=..)`, a local or a module-level name
    bound to one, with its `t[k] = v` stores)."""
    out: Set[str] = set()
    if depth > 3:
        return out
    if isinstance(table, ast.Dict):
        for k, v in zip(table.keys, table.values):
            if k is None:
                out |= _table_keys(mod, fn, v, depth + 1)
            elif isinstance(k, ast.Constant) and isinstance(k.value, str):
                out.add(k.value)
    elif isinstance(table, ast.Call) and call_attr(table) in ("dict", "OrderedDict", "MappingProxyType"):
        out |= {k.arg for k in table.keywords if k.arg}
        for a in table.args:
            out |= _table_keys(mod, fn, a, depth + 1)
    elif isinstance(table, ast.Name):
        vals = list(assigned_value(fn, table.id))
        out |= {k for _st, k, _v in key_stores(fn, table.id) if isinstance(k, str)}
        if not vals:
            for st in mod.tree.body:
                tgts = st.targets if isinstance(st, ast.Assign) else [st.target] if isinstance(st, ast.AnnAssign) and st.value is not None else []
                if any(isinstance(t, ast.Name) and t.id == table.id for t in tgts):
                    vals.append(st.value)
                elif isinstance(st, ast.Assign) and any(isinstance(t, ast.Subscript) and isinstance(t.value, ast.Name) and t.value.id == table.id and isinstance(t.slice, ast.Constant) and isinstance(t.slice.value, str) for t in st.targets):
                    out |= {t.slice.value for t in st.targets if isinstance(t, ast.Subscript) and isinstance(t.slice, ast.Constant)}
        for v in vals:
            out |= _table_keys(mod, fn, v, depth + 1)
    return out


def domain_classes_known_to_signature(repo: Repo, R: Report) -> None:
    """`variable_domain_signature` decides what it writes down for a sweep variable from the *class* of the domain object.
    Where it compares the name of the class (`type(spec).__name__ == "RangeSpec"`) the test holds for that very class
    only: an object of a derived class - which every `isinstance` test on the execution side accepts as a range and
    turns into values - falls through to the catch-all, which records nothing but the class name.  Both sides of that
    boundary have to agree on the classes: every class derived from one the signature knows by name that the package
    instantiates is known to the signature as well."""
    r = R.rule("C05-D3d-domain-classes-known-to-signature", "the domain signature and the code that builds sweep variable domains agree on the classes: where the signature recognises a domain class by the exact name / identity of the class of its argument, every class derived from it that code of the package instantiates (a derived range / sequence / from-context spec that the execution side still treats as one through isinstance) is recognised too - by its own name or by an isinstance test; otherwise its lo / hi / steps / values never reach the signature", 1)
    vds = NF(repo, SEM, "variable_domain_signature")
    bodies: List[ast.AST] = [vds]
    sem = repo.module(SEM)
    # the signature may hand the spec on to functions of its module (a dispatch table of signers): they belong to it
    seen_fn: Set[str] = {"variable_domain_signature"}
    todo = [vds]
    while todo:
        f = todo.pop()
        for x in ast.walk(f):
            if isinstance(x, ast.Name) and isinstance(x.ctx, ast.Load) and x.id not in seen_fn and isinstance(sem.defs.get(x.id), FuncNode) and x.id.startswith("_"):
                seen_fn.add(x.id)
                nf = NF(repo, SEM, x.id)
                bodies.append(nf)
                todo.append(nf)
    names: Set[str] = set()
    exact: List[ast.AST] = []
    inst: List[ast.AST] = []
    for b in bodies:
        n_, e_, i_ = _signature_dispatch(repo, SEM, b)
        names |= n_
        exact.extend(e_)
        inst.extend(i_)

    def classes_of(exprs: List[ast.AST]) -> List[Tuple[Module, ast.ClassDef]]:
        out = []
        for e in exprs:
            try:
                hit = repo.resolve_name(sem, e, vds)
            except Exception:
                hit = None
            if hit is not None and isinstance(hit[1], ast.ClassDef):
                out.append(hit)  # type: ignore[arg-type]
        return out

    by_name = [(m, c) for m, _qn, c in repo.all_classes() if c.name in names]
    exact_cls = by_name + classes_of(exact)
    inst_cls = classes_of(inst)
    if not exact_cls and not inst_cls:
        raise AnalysisError("variable_domain_signature: no test on the class of the domain object found (by name, by identity or by isinstance)")
    if not exact_cls:
        R.ok(r, SEM, "variable_domain_signature", "domain classes are recognised by isinstance: derived classes are covered", "", vds.lineno)
        return
    known = {id(c) for _m, c in exact_cls}

    def covered(m: Module, c: ast.ClassDef) -> bool:
        return id(c) in known or any(any(b is ic for _bm, b in repo.mro(m, c)) for _im, ic in inst_cls)

    # instantiations, by the class the callee expression resolves to
    derived: Dict[int, Tuple[Module, ast.ClassDef, ast.ClassDef]] = {}
    for bm, base in exact_cls:
        for sm, sub in repo.subclasses(base):
            if not covered(sm, sub):
                derived.setdefault(id(sub), (sm, sub, base))
    sites: Dict[int, List[Tuple[Module, str, ast.Call]]] = {}
    if derived:
        for m, qn, f in repo.all_functions():
            for c in calls_in(f):
                try:
                    hit = repo.resolve_name(m, c.func, c)
                except Exception:
                    hit = None
                if hit is not None and id(hit[1]) in derived:
                    sites.setdefault(id(hit[1]), []).append((m, qn, c))
    reported: Set[int] = set()
    for bm, base in exact_cls:
        bad = [(sm, sub) for sm, sub, b in derived.values() if b is base and sites.get(id(sub))]
        for sm, sub in bad:
            for m, qn, c in sites[id(sub)]:
                if id(c) in reported:
                    continue
                reported.add(id(c))
                repo.consulted.add(m.rel)
                R.violation(r, m.rel, qn, norm(stmt_of(c))[:110], f"`{_u(c)[:60]}` builds a sweep variable domain of class `{sub.name}` ({sm.rel}:{sub.lineno}), derived from `{base.name}`; the domain signature recognises `{base.name}` by the exact {'name' if base.name in names else 'identity'} of the class, so this object falls through to what the signature writes for an unknown class (its name only): the fields of the domain (bounds, steps, values ..) no longer reach the sweep metadata - two sweeps that differ only there produce different items but share node semantic id, semantic id and config id", c.lineno)
        if not bad:
            R.ok(r, SEM, "variable_domain_signature", f"every class derived from `{base.name}` that the package instantiates is recognised by the signature", "", vds.lineno)


def run(repo: Repo, R: Report) -> None:
    R.assume(
        "sha256 / uuid5 are injective for practical purposes and json.dumps(sort_keys=True) is injective on JSON values",
        "distinct processor classes have distinct module.qualname (except classes generated inside factory functions, handled by D2)",
    )
    R.undecided("hash collisions; equality of expression *values* (C12)")
    field_coverage(repo, R)
    params_lossless(repo, R)
    sweep_metadata(repo, R)
    rollup_sees_enrichment(repo, R)
    positional_and_domains(repo, R)
    canonicalised_config_is_declared(repo, R)
    sweep_field_values_handed_over(repo, R)
    config_pairs_cover_every_node(repo, R)
    config_pairs_keyed_by_uuid(repo, R)
    domain_classes_known_to_signature(repo, R)
    # an expression signature that merges expressions of different value makes two different sweeps share an id:
    # the discrimination half of C12 (only +/* chains of one operator are flattened; every other position is
    # kept in order) is a necessary condition of C05 as well
    from . import c12

    R.rule_prefix = "C05-D4/"
    try:
        c12.run(repo, R)
    finally:
        R.rule_prefix = ""
    # an id that is looked up in a memo / shared table filled by an earlier call is a function of the *earlier*
    # configuration: whatever the memo key does not cover (a sweep node's uuid does not cover its sweep definition)
    # stops changing the id.  The C04 rule over the identity slice, re-applied.
    from . import c04_rest

    R.rule_prefix = "C05-D5/"
    try:
        c04_rest.no_process_state(repo, R, c04_rest.identity_slice(repo))
    finally:
        R.rule_prefix = ""
