"""C12 - equal expression signatures imply equal values; commuted forms agree.

Structural rules on the normaliser ``_dump_ast_commutative``:
 D1a only + and * select the flatten/sort path;
 D1b flattening descends through the *same* operator only, and completely
     (an operand enters the operand list only when it is known not to be a same-operator BinOp);
 D1c the operand multiset is preserved from collection to the rebuilt chain
     (no set / dict / filter / slice on the way), sub-terms are normalised before sorting,
     the sort key is the whole dump of the term;
 D1d nothing else is reordered or rewritten (no other sort, no node constructors besides the refold);
 D1e the signature is the dump of the whole normalised tree without positions.
"""
from __future__ import annotations

import ast
from typing import Dict, List, Optional, Set, Tuple

from ..cfg import CFG, edges_guaranteeing
from ..engine import (
    AnalysisError,
    FuncNode,
    Repo,
    ancestors,
    call_attr,
    call_name,
    calls_in,
    dotted_name,
    kwarg,
    norm,
    qualname_of,
    stmt_of,
    walk_no_nested,
)
from ..report import Report

SEM = "semantiva/metadata/semantic_id.py"
COMMUTATIVE = {"Add", "Mult"}
LOSSY_CALLS = {"set", "frozenset", "dict", "fromkeys", "filter", "unique", "Counter", "OrderedDict", "islice", "groupby"}
PRESERVING_CALLS = {"list", "tuple", "sorted", "reversed", "map", "iter", "cast"}


def isinstance_classes(test: ast.AST, var_attr: str) -> Optional[List[ast.AST]]:
    """For ``isinstance(<var_attr>, T)`` return the list of class expressions in T."""
    if isinstance(test, ast.Call) and call_attr(test) == "isinstance" and len(test.args) == 2:
        if dotted_name(test.args[0]) == var_attr:
            t = test.args[1]
            return list(t.elts) if isinstance(t, ast.Tuple) else [t]
    return None


MODULE_TUPLES: Dict[str, List[ast.AST]] = {}


def _class_exprs(t: ast.AST) -> List[ast.AST]:
    """Class expressions of an isinstance() second argument; module-level tuple constants are expanded."""
    if isinstance(t, ast.Tuple):
        return list(t.elts)
    if isinstance(t, ast.Name) and t.id in MODULE_TUPLES:
        return list(MODULE_TUPLES[t.id])
    return [t]


def find_isinstance_on_op(test: ast.AST) -> List[Tuple[str, List[ast.AST]]]:
    """All ``isinstance(X.op, T)`` sub-tests in *test*: (X, class exprs)."""
    out = []
    for n in ast.walk(test):
        if isinstance(n, ast.Call) and call_attr(n) == "isinstance" and len(n.args) == 2:
            d = dotted_name(n.args[0])
            if d and d.endswith(".op"):
                out.append((d[: -len(".op")], _class_exprs(n.args[1])))
    return out


def run(repo: Repo, R: Report) -> None:
    fn = repo.func(SEM, "_dump_ast_commutative")
    MODULE_TUPLES.clear()
    for st in repo.module(SEM).tree.body:
        if isinstance(st, (ast.Assign, ast.AnnAssign)) and isinstance(getattr(st, "value", None), (ast.Tuple, ast.Set, ast.List)):
            t = st.targets[0] if isinstance(st, ast.Assign) else st.target
            if isinstance(t, ast.Name):
                MODULE_TUPLES[t.id] = list(st.value.elts)
    R.assume(
        "over numbers in exact arithmetic + and * are associative and commutative and no other binary operator of the grammar is",
        "ast.dump(tree, include_attributes=False) is injective on trees modulo source positions",
    )
    R.undecided("numeric evaluation itself (nothing is evaluated); non-numeric operands of + and * (outside the statement's scope)")

    inner_norm = next((n for n in ast.walk(fn) if isinstance(n, FuncNode) and n is not fn and n.name == "norm"), None)
    if inner_norm is None:
        # normaliser may have been flattened into the outer function
        inner_norm = fn
    nparam = inner_norm.args.args[0].arg if inner_norm.args.args else "n"

    # ---- D1a selecting test --------------------------------------------
    r_ops = R.rule("C12-D1a-ops", "the flatten/sort path is selected for ast.Add and ast.Mult only", 1)
    select_if: Optional[ast.If] = None
    for st in walk_no_nested(inner_norm):
        if isinstance(st, ast.If):
            hits = [h for h in find_isinstance_on_op(st.test) if h[0] == nparam]
            if hits and any(isinstance(c, ast.Attribute) for c in hits[0][1]):
                select_if = st
                classes = hits[0][1]
                names = {dotted_name(c) for c in classes}
                bad = sorted(n for n in names if n is None or n.split(".")[-1] not in COMMUTATIVE)
                R.check(not bad, r_ops, SEM, qualname_of(inner_norm), norm(st),
                        f"operators treated as commutative/associative include {bad}", st.lineno)
                break
    if select_if is None:
        raise AnalysisError("_dump_ast_commutative: commutative-operator selecting test not found")
    # every other isinstance(.op, literal classes) in the function must also stay within +,*
    for n in ast.walk(fn):
        if isinstance(n, (ast.If, ast.While, ast.IfExp)) and n is not select_if:
            for var, classes in find_isinstance_on_op(n.test):
                lits = [dotted_name(c) for c in classes if isinstance(c, ast.Attribute)]
                bad = [x for x in lits if x and x.split(".")[-1] not in COMMUTATIVE]
                if lits:
                    R.check(not bad, r_ops, SEM, qualname_of(fn), norm(n) if not isinstance(n, ast.IfExp) else norm(n.test),
                            f"additional operator test admits {bad}", n.lineno)

    branch = select_if.body
    branch_nodes = {id(x) for st in branch for x in ast.walk(st)}

    # op_type = type(n.op)
    op_vars: Set[str] = set()
    for st in branch:
        if isinstance(st, ast.Assign) and isinstance(st.value, ast.Call) and call_attr(st.value) == "type" and len(st.value.args) == 1 and dotted_name(st.value.args[0]) == f"{nparam}.op":
            op_vars |= {t.id for t in st.targets if isinstance(t, ast.Name)}

    # ---- D1b flattening ---------------------------------------------------
    r_flat = R.rule("C12-D1b-flatten", "operands are collected through same-operator BinOps only, and completely: an expression enters the operand list only on a branch where it is known not to be a same-operator BinOp; both children of a matched BinOp are forwarded", 3)
    # operand list: a local list to which things are appended inside the branch (incl. nested helper)
    list_names: Dict[str, int] = {}
    for st in branch:
        for n in ast.walk(st):
            if isinstance(n, ast.Call) and call_attr(n) in ("append", "extend", "insert") and isinstance(n.func, ast.Attribute) and isinstance(n.func.value, ast.Name):
                list_names[n.func.value.id] = list_names.get(n.func.value.id, 0) + 1
    # choose the list that later feeds the normalisation (first one defined as [] in the branch)
    terms_name = None
    for st in branch:
        tgt = None
        if isinstance(st, ast.Assign) and len(st.targets) == 1 and isinstance(st.targets[0], ast.Name):
            tgt, val = st.targets[0].id, st.value
        elif isinstance(st, ast.AnnAssign) and isinstance(st.target, ast.Name):
            tgt, val = st.target.id, st.value
        if tgt and tgt in list_names and isinstance(val, ast.List) and not val.elts:
            terms_name = tgt
            break
    if terms_name is None:
        raise AnalysisError("_dump_ast_commutative: operand list not found in the commutative branch")

    def match_atom_for(var: str):
        def atom(e: ast.AST) -> Optional[bool]:
            # isinstance(var, ast.BinOp) and isinstance(var.op, <same op>)
            if isinstance(e, ast.BoolOp) and isinstance(e.op, ast.And):
                a = any(isinstance_classes(v, var) is not None and {dotted_name(c) for c in isinstance_classes(v, var)} <= {"ast.BinOp", "BinOp"} for v in e.values)
                b = any(isinstance_classes(v, f"{var}.op") is not None for v in e.values)
                if a and b and len(e.values) == 2:
                    return True
            return None
        return atom

    # functions in which appends to the operand list happen
    append_sites: List[Tuple[ast.AST, ast.Call]] = []
    for st in branch:
        for n in ast.walk(st):
            if isinstance(n, ast.Call) and isinstance(n.func, ast.Attribute) and dotted_name(n.func.value) == terms_name and n.func.attr in ("append", "extend", "insert"):
                f = next((a for a in ancestors(n) if isinstance(a, FuncNode)), None)
                append_sites.append((f, n))
    if not append_sites:
        raise AnalysisError("no append to the operand list found")
    matched_vars: Set[str] = set()
    for f, call in append_sites:
        if f is None:
            raise AnalysisError("append outside a function")
        g = CFG(f)
        arg = call.args[-1] if call.args else None
        var = dotted_name(arg) if arg is not None else None
        stmt_nodes = [n for n in g.nodes if n.ast is not None and n.kind == "stmt" and any(c is call for c in calls_in(n.ast))]
        if call.func.attr != "append" or var is None or not stmt_nodes:
            R.violation(r_flat, SEM, qualname_of(f), norm(call), "operand list filled by an unrecognised form; completeness of flattening not established", call.lineno)
            continue
        atom = match_atom_for(var)
        blocked = set()
        guards = 0
        same_op_ok = True
        for n in g.nodes:
            if n.kind in ("if", "while") and n.part is not None:
                e = edges_guaranteeing(n.part, lambda x: (False if atom(x) else None))  # edges on which NOT match(var) holds
                if e:
                    guards += 1
                    # second isinstance argument must be the captured operator type
                    for v, classes in find_isinstance_on_op(n.part):
                        if v == var:
                            names = [dotted_name(c) for c in classes]
                            if not (len(classes) == 1 and names[0] in op_vars):
                                same_op_ok = False
                for lab in e:
                    blocked.add((n.id, lab))
        seen = g.reach([g.entry], blocked_edges=blocked)
        reach_unguarded = stmt_nodes[0].id in seen
        R.check(not reach_unguarded and guards > 0, r_flat, SEM, qualname_of(f), norm(call),
                f"`{var}` is added to the operand list on a path where it may still be a same-operator BinOp (chain not fully flattened: re-association changes the signature)",
                call.lineno, g.path_to(seen, stmt_nodes[0].id) if reach_unguarded else None)
        R.check(same_op_ok, r_flat, SEM, qualname_of(f), norm(call) + " [same operator]",
                "flattening descends through an operator other than the one being normalised (mixes + and * chains)", call.lineno)
        matched_vars.add(var)
    # both children of a matched node forwarded
    for f in {id(f): f for f, _ in append_sites}.values():
        used = {dotted_name(x) for x in ast.walk(f) if isinstance(x, ast.Attribute)}
        for var in sorted(matched_vars):
            base = var.split(".")[0]
            R.check({f"{base}.left", f"{base}.right"} <= used, r_flat, SEM, qualname_of(f), f"children of matched `{base}` forwarded",
                    "a child of a matched same-operator BinOp is not forwarded (operand dropped)", f.lineno)

    # ---- D1c multiset preservation, normalise before sort, total key ------------
    r_ms = R.rule("C12-D1c-multiset", "from the collected operand list to the rebuilt chain every operand is kept exactly once: normalised by norm(), sorted by the full ast.dump of the term, folded left to right", 4)
    # derive chain of variables starting at terms_name
    derived: Dict[str, List[str]] = {terms_name: []}  # var -> step kinds so far
    fold_seen = False
    sort_seen_for: Set[str] = set()
    normed: Set[str] = set()

    def classify(expr: ast.AST) -> Tuple[Optional[str], str]:
        """(source var, kind) where kind in preserving|norm-map|sort|lossy|unknown."""
        if isinstance(expr, ast.Name) and expr.id in derived:
            return expr.id, "preserving"
        if isinstance(expr, ast.ListComp) and len(expr.generators) == 1:
            gen = expr.generators[0]
            src, kind = classify(gen.iter)
            if src is None:
                return None, "unknown"
            if gen.ifs:
                return src, "lossy"
            k = "preserving"
            if isinstance(expr.elt, ast.Call) and call_attr(expr.elt) == inner_norm.name:
                k = "norm-map"
            elif isinstance(expr.elt, ast.Subscript):
                # [d[k] for k in sorted(d)] - element looked up through a mapping
                return src, "lossy"
            return src, k if kind == "preserving" else kind if kind != "preserving" else k
        if isinstance(expr, (ast.SetComp, ast.DictComp)):
            for gen in expr.generators:
                src, _ = classify(gen.iter)
                if src is not None:
                    return src, "lossy"
            return None, "unknown"
        if isinstance(expr, ast.Subscript):
            src, kind = classify(expr.value)
            if src is not None and isinstance(expr.slice, ast.Slice):
                return src, "lossy"
            return None, "unknown"
        if isinstance(expr, ast.Call):
            name = call_attr(expr)
            args = list(expr.args)
            if name == "map" and len(args) == 2:
                src, kind = classify(args[1])
                if src is not None:
                    is_norm = isinstance(args[0], ast.Name) and args[0].id == inner_norm.name
                    return src, kind if kind != "preserving" else ("norm-map" if is_norm else "preserving")
            if name in LOSSY_CALLS:
                for a in args:
                    src, _ = classify(a)
                    if src is not None:
                        return src, "lossy"
            if name in PRESERVING_CALLS and args:
                src, kind = classify(args[-1] if name == "cast" else args[0])
                if src is not None:
                    if name == "sorted" and kind == "preserving":
                        return src, "sort"
                    return src, kind
            for a in args:
                src, _ = classify(a)
                if src is not None:
                    return src, "unknown"
        return None, "unknown"

    def key_ok(key: Optional[ast.AST]) -> bool:
        if not isinstance(key, ast.Lambda) or len(key.args.args) != 1:
            return False
        p = key.args.args[0].arg
        b = key.body
        if not (isinstance(b, ast.Call) and call_name(b) == "ast.dump" and b.args and isinstance(b.args[0], ast.Name) and b.args[0].id == p):
            return False
        ia = kwarg(b, "include_attributes")
        return ia is None or (isinstance(ia, ast.Constant) and ia.value is False)

    fold_var = None
    for st in branch:
        if isinstance(st, (ast.Assign, ast.AnnAssign)):
            tgts = st.targets if isinstance(st, ast.Assign) else [st.target]
            val = st.value
            if val is None or not (len(tgts) == 1 and isinstance(tgts[0], ast.Name)):
                continue
            tname = tgts[0].id
            if tname == terms_name:
                continue
            src, kind = classify(val)
            if src is None:
                continue
            steps = derived[src] + [kind]
            derived[tname] = steps
            if kind == "lossy" or kind == "unknown":
                R.violation(r_ms, SEM, qualname_of(inner_norm), norm(st),
                            "operand multiset is not preserved here (set/dict/filter/slice between collection and refold): repeated or distinct operands can be merged or dropped, so different values share a signature" if kind == "lossy"
                            else "operand list flows through a transformation not known to keep every operand exactly once", st.lineno)
            if kind == "sort" or (isinstance(val, ast.Call) and call_attr(val) == "sorted"):
                if isinstance(val, ast.Call) and call_attr(val) == "sorted":
                    R.check(key_ok(kwarg(val, "key")), r_ms, SEM, qualname_of(inner_norm), norm(st), "sort key is not the full ast.dump of the term without positions (ties or positions make the order input-dependent)", st.lineno)
                    R.check("norm-map" in derived[src] or "norm-map" in steps, r_ms, SEM, qualname_of(inner_norm), norm(st) + " [after norm]", "operands are sorted before their sub-terms are normalised", st.lineno)
                    sort_seen_for.add(tname)
        elif isinstance(st, ast.Expr) and isinstance(st.value, ast.Call) and call_attr(st.value) == "sort" and isinstance(st.value.func, ast.Attribute):
            recv = dotted_name(st.value.func.value)
            if recv in derived:
                R.check(key_ok(kwarg(st.value, "key")), r_ms, SEM, qualname_of(inner_norm), norm(st), "sort key is not the full ast.dump of the term without positions (ties or positions make the order input-dependent)", st.lineno)
                R.check("norm-map" in derived[recv], r_ms, SEM, qualname_of(inner_norm), norm(st) + " [after norm]", "operands are sorted before their sub-terms are normalised", st.lineno)
                derived[recv] = derived[recv] + ["sort"]
                sort_seen_for.add(recv)
    # fold: current = X[0]; for t in X[1:]: current = BinOp(left=current, op=op(), right=t); return current
    fold_for = None
    for st in branch:
        if isinstance(st, ast.For) and isinstance(st.iter, ast.Subscript) and dotted_name(st.iter.value) in derived:
            fold_for = st
    if fold_for is None:
        raise AnalysisError("_dump_ast_commutative: refold loop over the operand list not recognised")
    fv = dotted_name(fold_for.iter.value)
    sl = fold_for.iter.slice
    tail_ok = isinstance(sl, ast.Slice) and isinstance(sl.lower, ast.Constant) and sl.lower.value == 1 and sl.upper is None and sl.step is None
    R.check(tail_ok, r_ms, SEM, qualname_of(inner_norm), norm(fold_for), "refold does not iterate over all remaining operands [1:]", fold_for.lineno)
    head_ok = False
    acc = None
    for st in branch:
        if isinstance(st, ast.Assign) and len(st.targets) == 1 and isinstance(st.targets[0], ast.Name):
            v = st.value
            if isinstance(v, ast.Call) and call_attr(v) == "cast" and len(v.args) == 2:
                v = v.args[1]
            if isinstance(v, ast.Subscript) and dotted_name(v.value) == fv and isinstance(v.slice, ast.Constant) and v.slice.value == 0:
                head_ok = True
                acc = st.targets[0].id
    R.check(head_ok, r_ms, SEM, qualname_of(inner_norm), f"{acc} = {fv}[0]", "refold does not start from the first operand", fold_for.lineno)
    steps = derived.get(fv, [])
    R.check("norm-map" in steps and "sort" in steps and "lossy" not in steps and "unknown" not in steps, r_ms, SEM, qualname_of(inner_norm),
            f"operand chain {terms_name} -> {fv}: {steps}", "the list that is refolded was not (normalised, then sorted) from the full operand list", fold_for.lineno)
    # loop body: acc = ast.BinOp(left=acc, op=<op_var>(), right=<loop var or cast of it>)
    body_ok = False
    for st in fold_for.body:
        if isinstance(st, ast.Assign) and isinstance(st.value, ast.Call) and call_name(st.value) in ("ast.BinOp", "BinOp"):
            c = st.value
            left, right, op = kwarg(c, "left"), kwarg(c, "right"), kwarg(c, "op")
            if c.args:
                left = left or (c.args[0] if len(c.args) > 0 else None)
                op = op or (c.args[1] if len(c.args) > 1 else None)
                right = right or (c.args[2] if len(c.args) > 2 else None)
            lv = isinstance(fold_for.target, ast.Name) and fold_for.target.id
            # allow: term_expr = cast(ast.expr, term)
            alias = {lv}
            for s2 in fold_for.body:
                if isinstance(s2, ast.Assign) and isinstance(s2.targets[0], ast.Name) and lv in {n.id for n in ast.walk(s2.value) if isinstance(n, ast.Name)}:
                    alias.add(s2.targets[0].id)
            body_ok = (
                isinstance(left, ast.Name) and left.id == acc
                and isinstance(op, ast.Call) and isinstance(op.func, ast.Name) and op.func.id in op_vars
                and isinstance(right, ast.Name) and right.id in alias
                and any(isinstance(t, ast.Name) and t.id == acc for t in st.targets)
            )
    R.check(body_ok, r_ms, SEM, qualname_of(inner_norm), "refold body: acc = BinOp(left=acc, op=op_type(), right=term)", "refold does not rebuild the chain from every operand with the same operator", fold_for.lineno)

    # ---- D1d nothing else reordered / rewritten --------------------------------
    r_else = R.rule("C12-D1d-else", "outside the +/* branch the tree is rebuilt field by field in order: no other sort/reverse/set, no node construction, no rewriting of constants, names or call targets", 2)
    n_checked = 0
    for n in ast.walk(fn):
        if isinstance(n, ast.Call):
            nm = call_attr(n)
            if nm in ("sorted", "sort", "reversed", "reverse", "set", "frozenset", "shuffle") and id(n) not in branch_nodes:
                R.violation(r_else, SEM, qualname_of(fn), norm(n), "operands of a non-commutative construct are reordered or merged", n.lineno)
            d = call_name(n)
            if d and d.startswith("ast.") and d[4:5].isupper():
                n_checked += 1
                inside = id(n) in branch_nodes
                ok = inside and d == "ast.BinOp"
                R.check(ok, r_else, SEM, qualname_of(fn), norm(n), "the normaliser constructs/rewrites nodes other than the refolded +/* chain", n.lineno)
        if isinstance(n, ast.Assign):
            for t in n.targets:
                if isinstance(t, ast.Attribute) and t.attr in ("value", "id", "func", "op", "ops", "left", "right", "operand", "comparators", "args"):
                    R.violation(r_else, SEM, qualname_of(fn), norm(n), f"explicit rewrite of .{t.attr} in the normaliser", n.lineno)
    # generic rebuild loop: for field, value in ast.iter_fields(n): setattr(n, field, norm(value)) / list comp over value in order
    gen_loops = [n for n in ast.walk(inner_norm) if isinstance(n, ast.For) and isinstance(n.iter, ast.Call) and call_name(n.iter) == "ast.iter_fields"]
    if not gen_loops:
        raise AnalysisError("generic field-by-field rebuild loop (ast.iter_fields) not found")
    for lp in gen_loops:
        ok = True
        for c in calls_in(lp):
            if call_attr(c) == "setattr":
                v = c.args[2] if len(c.args) > 2 else None
                if isinstance(v, ast.ListComp):
                    gen = v.generators[0]
                    ok = ok and isinstance(gen.iter, ast.Name) and not gen.ifs
        R.check(ok, r_else, SEM, qualname_of(inner_norm), norm(lp), "list-valued fields are not rebuilt element by element in order", lp.lineno)

    # ---- D1e signature is the dump of the whole normalised tree --------------------
    r_sig = R.rule("C12-D1e-signature", "the signature is ast.dump (without positions) of the whole normalised tree of the whole parsed expression", 3)
    rets = [n for n in walk_no_nested(fn) if isinstance(n, ast.Return) and n.value is not None]
    for r in rets:
        v = r.value
        ok = isinstance(v, ast.Call) and call_name(v) == "ast.dump" and len(v.args) == 1 and isinstance(v.args[0], ast.Name)
        if ok:
            ia = kwarg(v, "include_attributes")
            ok = ia is None or (isinstance(ia, ast.Constant) and ia.value is False)
        if ok:
            # the dumped name = norm(<expr built from the parameter>)
            nm = v.args[0].id
            defs = [a for a in walk_no_nested(fn) if isinstance(a, ast.Assign) and any(isinstance(t, ast.Name) and t.id == nm for t in a.targets)]
            p0 = fn.args.args[0].arg
            ok = len(defs) == 1 and isinstance(defs[0].value, ast.Call) and call_attr(defs[0].value) == inner_norm.name and p0 in {x.id for x in ast.walk(defs[0].value) if isinstance(x, ast.Name)} \
                and not any(isinstance(x, (ast.Attribute, ast.Subscript)) and not (isinstance(x, ast.Attribute) and dotted_name(x) in ("ast.fix_missing_locations",)) for x in ast.walk(defs[0].value))
        R.check(bool(ok), r_sig, SEM, qualname_of(fn), norm(r), "the returned signature is not the position-free dump of the complete normalised tree", r.lineno)
    if not rets:
        raise AnalysisError("_dump_ast_commutative has no return")
    sigfn = repo.func(SEM, "normalize_expression_sig_v1")
    p0 = sigfn.args.args[0].arg
    parse = [c for c in calls_in(sigfn) if call_name(c) == "ast.parse"]
    ok = len(parse) == 1 and parse[0].args and isinstance(parse[0].args[0], ast.Name) and parse[0].args[0].id == p0
    R.check(ok, r_sig, SEM, "normalize_expression_sig_v1", norm(parse[0]) if parse else "ast.parse(expr)", "the signature is not computed from the expression text as given", sigfn.lineno)
    dumps = [c for c in calls_in(sigfn) if call_attr(c) == "_dump_ast_commutative"]
    ok = False
    tree_names: set = set()
    if len(dumps) == 1 and dumps[0].args:
        a = dumps[0].args[0]
        tree_names = {t.id for n in walk_no_nested(sigfn) if isinstance(n, ast.Assign) and n.value in parse for t in n.targets if isinstance(t, ast.Name)}
        ok = (isinstance(a, ast.Attribute) and a.attr == "body" and isinstance(a.value, ast.Name) and a.value.id in tree_names) or (isinstance(a, ast.Name) and a.id in tree_names)
    if not ok and len(dumps) == 1 and dumps[0].args:
        a = dumps[0].args[0]
        a = a.value if isinstance(a, ast.Attribute) and a.attr == "body" else a
        ok = a in parse
    R.check(ok, r_sig, SEM, "normalize_expression_sig_v1", norm(dumps[0]) if dumps else "_dump_ast_commutative(tree.body)", "the normaliser is not applied to the whole parsed expression", sigfn.lineno)
    # the parsed tree reaches the normaliser untouched: its only uses are its definition and the normaliser argument
    if len(dumps) == 1:
        allowed = {id(x) for x in ast.walk(dumps[0])}
        stray = [n for n in walk_no_nested(sigfn) if isinstance(n, ast.Name) and n.id in tree_names and isinstance(n.ctx, ast.Load) and id(n) not in allowed]
        for n in stray:
            R.violation(r_sig, SEM, "normalize_expression_sig_v1", norm(stmt_of(n)), "the parsed tree is read or rewritten before it reaches the normaliser (the signature is no longer that of the expression as written)", n.lineno)
        if not stray:
            R.ok(r_sig, SEM, "normalize_expression_sig_v1", "uses of the parsed tree: definition and normaliser argument only")
    # returned mapping carries the dump under "ast"
    for r in [n for n in walk_no_nested(sigfn) if isinstance(n, ast.Return)]:
        v = r.value
        ok = isinstance(v, ast.Dict) and any(isinstance(k, ast.Constant) and k.value == "ast" and val in dumps for k, val in zip(v.keys, v.values))
        R.check(ok, r_sig, SEM, "normalize_expression_sig_v1", norm(r), "signature mapping does not carry the full canonical dump", r.lineno)
