"""C12 - equal expression signatures imply equal values; commuted forms agree.

Structural rules on the normaliser ``_dump_ast_commutative``:
 D1a only + and * select the flatten/sort path;
 D1b flattening descends through the *same* operator only, and completely
     (an operand enters the operand list only when it is known not to be a same-operator BinOp);
 D1c the operand multiset is preserved from collection to the rebuilt chain
     (no set / dict / filter / slice on the way), sub-terms are normalised before sorting,
     the sort key is the whole dump of the term;
 D1d nothing else is reordered or rewritten (no other sort, no node constructors besides the refold);
 D1e the signature is the dump of the whole normalised tree without positions.

Boundary rules on what the rest of the package does with a signature (``boundary_rules``; callers of the public
signature function are found through the call graph / by name, wrappers included; decided on normal forms):
 D2a every published signature sits under the name of the parameter whose expression it was computed from
     (key and expression from the same item; sequences of names and signatures re-joined in the same order);
 D3a the class attribute signatures are computed from is a private copy taken when the expressions were compiled;
 D3b the function table an evaluator evaluates with is its own object: a shared table is never updated in place;
 D3c (round 12, value side only) where the evaluation looks names up, the variable assignment of the call is consulted before
     every function table: eval's locals before its globals; a namespace merged from several mappings (`{**a, **b}`,
     `dict(a, **b)`, `a | b`, `ChainMap`, `.update` / `|=` between creation and use) is taken apart in lookup order;
 D4  a declared sweep value reaches the evaluation as the number that was written (spec creation, value listing, sweep steps,
     and - round 11 - the variable namespace handed to eval: not rebuilt through a conversion into floating point, be it
     written in place or inside a helper that hands its argument back, unless the path tests for a floating-point class).

Round 11: the normaliser is found by role (`find_normaliser`); the operator classes of the selecting test are resolved by
value flow (`op_class_sources`: literal, module constant, closure local, parameter default + every call's argument); the
dump function is recognised by what it is (`plain_dump_fn`: ast.dump, lambda, one-line def, functools.partial, named once);
D1d also covers every function / class the signature function brings in besides the normaliser (`signature_closure`).

Round 13: D1b follows the operand list and the captured operator class into a helper that receives them as arguments
(`_fill_sites`: nested or module-level, recursive; the class under every parameter the call binds to it and the recursion hands
on unchanged); `type(<n>.op)` written in place counts as the captured class; D1c reads the accumulate loop
`X = []; for t in IT: X.append(E)` as the comprehension it is and follows the first operand through casts / copies of a local.
"""
from __future__ import annotations

import ast
from typing import Callable, Dict, List, Optional, Set, Tuple

from ..cfg import CFG, edges_guaranteeing
from ..engine import (
    AnalysisError,
    FuncNode,
    Repo,
    ancestors,
    call_attr,
    call_name,
    calls_in,
    dotted_name,
    kwarg,
    norm,
    parent,
    qualname_of,
    stmt_of,
    walk_no_nested,
)
from ..report import Report

SEM = "semantiva/metadata/semantic_id.py"
COMMUTATIVE = {"Add", "Mult"}
LOSSY_CALLS = {"set", "frozenset", "dict", "fromkeys", "filter", "unique", "Counter", "OrderedDict", "islice", "groupby"}
PRESERVING_CALLS = {"list", "tuple", "sorted", "reversed", "map", "iter", "cast"}


def isinstance_classes(test: ast.AST, var_attr: str) -> Optional[List[ast.AST]]:
    """For ``isinstance(<var_attr>, T)`` return the list of class expressions in T."""
    if isinstance(test, ast.Call) and call_attr(test) == "isinstance" and len(test.args) == 2:
        if dotted_name(test.args[0]) == var_attr:
            t = test.args[1]
            return list(t.elts) if isinstance(t, ast.Tuple) else [t]
    return None


MODULE_TUPLES: Dict[str, List[ast.AST]] = {}


def _class_exprs(t: ast.AST) -> List[ast.AST]:
    """Class expressions of an isinstance() second argument; module-level tuple constants are expanded."""
    if isinstance(t, ast.Tuple):
        return list(t.elts)
    if isinstance(t, ast.Name) and t.id in MODULE_TUPLES:
        return list(MODULE_TUPLES[t.id])
    return [t]


def find_isinstance_on_op(test: ast.AST) -> List[Tuple[str, List[ast.AST]]]:
    """All ``isinstance(X.op, T)`` sub-tests in *test*: (X, class exprs)."""
    out = []
    for n in ast.walk(test):
        if isinstance(n, ast.Call) and call_attr(n) == "isinstance" and len(n.args) == 2:
            d = dotted_name(n.args[0])
            if d and d.endswith(".op"):
                out.append((d[: -len(".op")], _class_exprs(n.args[1])))
    return out


def _bindings(name: str, at: ast.AST, mod_tree: Optional[ast.AST]) -> Optional[List[ast.AST]]:
    """What *name*, read at *at*, is bound to: right-hand sides / ``def`` nodes of the nearest enclosing scope that binds it
    (None: a parameter, a loop variable or any other binding without one visible value)."""
    scopes = [a for a in ancestors(at) if isinstance(a, FuncNode)]
    if isinstance(at, FuncNode):
        scopes.insert(0, at)
    for f in scopes:
        if name in _params(f):
            return None
        found: List[ast.AST] = [d for d in _defs_of(f, name)]
        found += [n for n in ast.walk(f) if isinstance(n, FuncNode) and n is not f and n.name == name and next((a for a in ancestors(n) if isinstance(a, FuncNode + (ast.ClassDef, ast.Lambda))), None) is f]
        other = any(isinstance(n, (ast.For, ast.comprehension, ast.withitem, ast.ExceptHandler, ast.Import, ast.ImportFrom, ast.ClassDef)) and (
            (isinstance(n, (ast.For, ast.comprehension)) and any(isinstance(x, ast.Name) and x.id == name for x in ast.walk(n.target)))
            or (isinstance(n, ast.withitem) and n.optional_vars is not None and any(isinstance(x, ast.Name) and x.id == name for x in ast.walk(n.optional_vars)))
            or (isinstance(n, ast.ExceptHandler) and n.name == name)
            or (isinstance(n, ast.ClassDef) and n.name == name)
            or (isinstance(n, (ast.Import, ast.ImportFrom)) and any((al.asname or al.name.split(".")[0]) == name for al in n.names))
        ) for n in walk_no_nested(f))
        if found or other:
            return None if other or any(d is None for d in found) else found
    if mod_tree is not None:
        found = []
        for st in mod_tree.body:
            if isinstance(st, FuncNode) and st.name == name:
                found.append(st)
            elif isinstance(st, ast.Assign) and any(isinstance(t, ast.Name) and t.id == name for t in st.targets):
                found.append(st.value)
            elif isinstance(st, ast.AnnAssign) and isinstance(st.target, ast.Name) and st.target.id == name and st.value is not None:
                found.append(st.value)
        return found or None
    return None


def _no_positions(call: ast.Call) -> bool:
    """Keyword arguments of a call of ast.dump that leave it the position-free, field-annotated dump."""
    for k in call.keywords:
        if k.arg == "include_attributes" and isinstance(k.value, ast.Constant) and k.value.value is False:
            continue
        if k.arg == "annotate_fields" and isinstance(k.value, ast.Constant) and k.value.value is True:
            continue
        return False
    return True


def plain_dump_fn(e: Optional[ast.AST], at: ast.AST, mod_tree: Optional[ast.AST], depth: int = 0) -> bool:
    """True when *e* (read at *at*) denotes the function ``t -> ast.dump(t, include_attributes=False)`` - whichever way it is
    spelled: ``ast.dump`` itself, a lambda / one-line def around it, ``functools.partial`` of it, or a name bound once to one."""
    if e is None or depth > 6:
        return False
    if isinstance(e, (ast.Attribute, ast.Name)) and dotted_name(e) == "ast.dump":
        return True
    if isinstance(e, ast.Lambda):
        a = e.args
        if len(a.args) != 1 or a.vararg or a.kwarg or a.kwonlyargs or a.posonlyargs:
            return False
        arg = plain_dump_arg(e.body, e, mod_tree, depth + 1)
        return isinstance(arg, ast.Name) and arg.id == a.args[0].arg
    if isinstance(e, FuncNode):
        a = e.args
        body = [st for st in e.body if not (isinstance(st, ast.Expr) and isinstance(st.value, ast.Constant))]
        if len(a.args) + len(a.posonlyargs) != 1 or a.vararg or a.kwarg or a.kwonlyargs or e.decorator_list or len(body) != 1 or not isinstance(body[0], ast.Return):
            return False
        arg = plain_dump_arg(body[0].value, body[0], mod_tree, depth + 1)
        return isinstance(arg, ast.Name) and arg.id == (a.posonlyargs + a.args)[0].arg
    if isinstance(e, ast.Call) and call_attr(e) == "partial" and len(e.args) == 1:
        return plain_dump_fn(e.args[0], at, mod_tree, depth + 1) and _no_positions(e)
    if isinstance(e, ast.Call) and call_attr(e) == "cast" and len(e.args) == 2:
        return plain_dump_fn(e.args[1], at, mod_tree, depth + 1)
    if isinstance(e, ast.Name):
        b = _bindings(e.id, at, mod_tree)
        return bool(b) and len(b) == 1 and plain_dump_fn(b[0], b[0] if isinstance(b[0], FuncNode) else (parent(b[0]) or at), mod_tree, depth + 1)
    return False


def plain_dump_arg(call: Optional[ast.AST], at: ast.AST, mod_tree: Optional[ast.AST], depth: int = 0) -> Optional[ast.AST]:
    """For a call that computes the position-free dump of a tree: the expression of the tree (else None)."""
    if not isinstance(call, ast.Call) or len(call.args) != 1 or isinstance(call.args[0], ast.Starred):
        return None
    if not plain_dump_fn(call.func, at, mod_tree, depth):
        return None
    if not _no_positions(call):
        return None
    return call.args[0]


def op_class_sources(t: ast.AST, at: ast.AST, root: ast.AST, depth: int = 0) -> List[Tuple[ast.AST, ast.AST]]:
    """Every class expression the second argument *t* of an ``isinstance`` test (read at *at*, inside function *root*) can
    stand for, with the expression it was written in: a tuple in place, a module-level constant, a local bound to one, or a
    parameter of a function nested in *root* - then its default and the argument of every call of that function in *root*.
    Expressions that cannot be resolved are returned as they are."""
    if depth > 6:
        return [(t, t)]
    if isinstance(t, (ast.Tuple, ast.List, ast.Set)):
        out: List[Tuple[ast.AST, ast.AST]] = []
        for e in t.elts:
            e = e.value if isinstance(e, ast.Starred) else e
            if isinstance(e, ast.Attribute):
                out.append((e, t))
            else:
                out.extend(op_class_sources(e, at, root, depth + 1))
        return out
    if isinstance(t, ast.BinOp) and isinstance(t.op, ast.Add):
        return op_class_sources(t.left, at, root, depth + 1) + op_class_sources(t.right, at, root, depth + 1)
    if isinstance(t, ast.Name):
        scopes = [a for a in ancestors(at) if isinstance(a, FuncNode)]
        for f in scopes:
            if t.id in _params(f):
                out = []
                a = f.args
                pos = a.posonlyargs + a.args
                names = [x.arg for x in pos]
                dflt = None
                if t.id in names:
                    i = names.index(t.id) - (len(pos) - len(a.defaults))
                    dflt = a.defaults[i] if i >= 0 else None
                elif t.id in [x.arg for x in a.kwonlyargs]:
                    dflt = a.kw_defaults[[x.arg for x in a.kwonlyargs].index(t.id)]
                else:
                    return [(t, t)]
                if dflt is not None:
                    out.extend(op_class_sources(dflt, f, root, depth + 1))
                for c in ast.walk(root):
                    if not (isinstance(c, ast.Call) and isinstance(c.func, ast.Name) and c.func.id == f.name):
                        continue
                    if any(isinstance(x, ast.Starred) for x in c.args) or any(k.arg is None for k in c.keywords):
                        out.append((c, c))
                        continue
                    arg = kwarg(c, t.id)
                    if arg is None and t.id in names and names.index(t.id) < len(c.args):
                        arg = c.args[names.index(t.id)]
                    if arg is None:
                        continue  # the default
                    if isinstance(arg, ast.Name) and arg.id == t.id and any(x is f for x in ancestors(c)):
                        continue  # handed on unchanged by the function itself
                    out.extend(op_class_sources(arg, c, root, depth + 1))
                # the function handed around as a value (map(norm, ..)) is called with the default
                return out or [(t, t)]
            defs = _defs_of(f, t.id)
            if defs:
                if any(d is None for d in defs):
                    return [(t, t)]
                out = []
                for d in defs:
                    out.extend(op_class_sources(d, parent(d) or at, root, depth + 1))
                return out
        if t.id in MODULE_TUPLES:
            return [(e, t) if isinstance(e, ast.Attribute) else (e, e) for e in MODULE_TUPLES[t.id]]
    return [(t, t)]


NODE_FIELDS = ("value", "id", "func", "op", "ops", "left", "right", "operand", "comparators", "args", "keywords", "elts", "values", "test", "body", "orelse")


def _store_targets(st: ast.AST) -> List[ast.AST]:
    """Every single target a store statement writes (tuple / starred targets opened)."""
    tg = st.targets if isinstance(st, ast.Assign) else [st.target]
    out: List[ast.AST] = []
    stack = list(tg)
    while stack:
        t = stack.pop()
        if isinstance(t, (ast.Tuple, ast.List)):
            stack.extend(t.elts)
        elif isinstance(t, ast.Starred):
            stack.append(t.value)
        else:
            out.append(t)
    return out


def signature_closure(repo: Repo, entry: str, exclude: Tuple[ast.AST, ...] = ()) -> List[ast.AST]:
    """Functions of the signature module, other than the entry point and *exclude*, that the entry point brings in: module-level
    functions it names (directly or through one of them), and every method of a module-level class it names."""
    tree = repo.module(SEM).tree
    top: Dict[str, ast.AST] = {st.name: st for st in tree.body if isinstance(st, (FuncNode, ast.ClassDef))}
    start = top.get(entry)
    if start is None:
        return []
    seen: List[ast.AST] = [start]
    todo = [start]
    while todo:
        cur = todo.pop()
        if any(cur is x for x in exclude):
            continue
        for n in ast.walk(cur):
            if isinstance(n, ast.Name) and isinstance(n.ctx, ast.Load) and n.id in top and not any(top[n.id] is x for x in seen):
                seen.append(top[n.id])
                todo.append(top[n.id])
    out: List[ast.AST] = []
    for x in seen[1:]:
        if any(x is e for e in exclude):
            continue
        if isinstance(x, ast.ClassDef):
            out.extend(m for m in ast.walk(x) if isinstance(m, FuncNode))
        else:
            out.append(x)
    return out


def _empty_list(e: ast.AST) -> bool:
    """A fresh empty list: ``[]`` / ``list()`` (a typing cast around it looked through)."""
    if isinstance(e, ast.Call) and call_attr(e) == "cast" and len(e.args) == 2:
        e = e.args[1]
    if isinstance(e, ast.List):
        return not e.elts
    return isinstance(e, ast.Call) and isinstance(e.func, ast.Name) and e.func.id == "list" and not e.args and not e.keywords


def _receiving_param(h: ast.AST, c: ast.Call, arg: ast.AST) -> Optional[str]:
    """The parameter of *h* that receives the argument node *arg* of the call *c* (None: starred / not bindable)."""
    if any(isinstance(x, ast.Starred) for x in c.args) or any(k.arg is None for k in c.keywords):
        return None
    pos = [x.arg for x in h.args.posonlyargs + h.args.args]
    for i, x in enumerate(c.args):
        if x is arg:
            return pos[i] if i < len(pos) else None
    for k in c.keywords:
        if k.value is arg:
            return k.arg if k.arg in _params(h) else None
    return None


def _arg_of(h: ast.AST, c: ast.Call, pname: str) -> Optional[ast.AST]:
    """The argument expression the call *c* of *h* binds to parameter *pname* (None: default / not bindable)."""
    if any(isinstance(x, ast.Starred) for x in c.args) or any(k.arg is None for k in c.keywords):
        return None
    a = kwarg(c, pname)
    if a is not None:
        return a
    pos = [x.arg for x in h.args.posonlyargs + h.args.args]
    if pname in pos and pos.index(pname) < len(c.args):
        return c.args[pos.index(pname)]
    return None


def _fill_sites(scope: List[ast.AST], scope_fn: ast.AST, lname: str, opnames: Set[str], root: ast.AST, mod_tree: Optional[ast.AST],
                seen: Optional[Set[Tuple[int, str]]] = None, is_op: Optional[Callable[[ast.AST], bool]] = None) -> List[Tuple[ast.AST, ast.Call, Set[str]]]:
    """Where the list known as *lname* in the statements *scope* is filled: (function, append/extend/insert call, names that
    hold the captured operator class there). The list is followed into every function it is handed to as an argument (a def
    nested in the normaliser or a module-level one, found through the binding of the called name): there it goes under the
    receiving parameter's name, and the operator class under every parameter that the call binds to a name holding it and that
    the helper's own recursive calls hand on unchanged."""
    seen = set() if seen is None else seen
    out: List[Tuple[ast.AST, ast.Call, Set[str]]] = []
    for st in scope:
        for n in ast.walk(st):
            if not isinstance(n, ast.Call):
                continue
            if isinstance(n.func, ast.Attribute) and n.func.attr in ("append", "extend", "insert") and isinstance(n.func.value, ast.Name) and n.func.value.id == lname:
                f = next((a for a in ancestors(n) if isinstance(a, FuncNode)), None)
                if f is not None and f is not scope_fn and lname in _params(f):
                    continue  # another object under the same name
                out.append((f, n, set(opnames) if f is scope_fn or f is None else set(opnames) - _params(f)))
                continue
            handed = [a for a in list(n.args) + [k.value for k in n.keywords] if isinstance(a, ast.Name) and a.id == lname]
            if not handed or not isinstance(n.func, ast.Name):
                continue
            b = _bindings(n.func.id, n, mod_tree)
            if not b or len(b) != 1 or not isinstance(b[0], FuncNode):
                continue
            h = b[0]
            p = _receiving_param(h, n, handed[0])
            if p is None or (id(h), p) in seen:
                continue
            seen.add((id(h), p))
            own_calls = [c for c in ast.walk(h) if isinstance(c, ast.Call) and isinstance(c.func, ast.Name) and c.func.id == h.name]
            inner_ops: Set[str] = set()
            for q in _params(h):
                a = _arg_of(h, n, q)
                if not ((isinstance(a, ast.Name) and a.id in opnames) or (a is not None and is_op is not None and is_op(a))):
                    continue
                if all(isinstance(_arg_of(h, c, q), ast.Name) and _arg_of(h, c, q).id == q for c in own_calls):
                    inner_ops.add(q)
            if any(x is root for x in ancestors(h)):
                inner_ops |= set(opnames) - _params(h)  # a nested helper still sees the enclosing names
            out.extend(_fill_sites(list(h.body), h, p, inner_ops, root, mod_tree, seen, is_op))
    return out



def find_normaliser(repo: Repo) -> ast.AST:
    """The normaliser, by role: the module-level function the public signature function calls (directly or through other
    module-level functions) that tests the operator class of a node (``isinstance(<x>.op, ..)``)."""
    tree = repo.module(SEM).tree
    top: Dict[str, ast.AST] = {st.name: st for st in tree.body if isinstance(st, FuncNode)}
    start = top.get("normalize_expression_sig_v1")
    if start is None:
        raise AnalysisError(f"anchor function vanished: {SEM}:normalize_expression_sig_v1")
    seen, todo = [start], [start]
    while todo:
        cur = todo.pop(0)
        if cur is not start and any(find_isinstance_on_op(n) for n in ast.walk(cur) if isinstance(n, ast.Call) and call_attr(n) == "isinstance"):
            return cur
        for n in ast.walk(cur):
            if isinstance(n, ast.Name) and isinstance(n.ctx, ast.Load) and n.id in top and not any(top[n.id] is x for x in seen):
                seen.append(top[n.id])
                todo.append(top[n.id])
    return repo.func(SEM, "_dump_ast_commutative")


def run(repo: Repo, R: Report) -> None:
    mod_tree = repo.module(SEM).tree
    fn = find_normaliser(repo)
    MODULE_TUPLES.clear()
    for st in repo.module(SEM).tree.body:
        if isinstance(st, (ast.Assign, ast.AnnAssign)) and isinstance(getattr(st, "value", None), (ast.Tuple, ast.Set, ast.List)):
            t = st.targets[0] if isinstance(st, ast.Assign) else st.target
            if isinstance(t, ast.Name):
                MODULE_TUPLES[t.id] = list(st.value.elts)
    R.assume(
        "over numbers in exact arithmetic + and * are associative and commutative and no other binary operator of the grammar is",
        "ast.dump(tree, include_attributes=False) is injective on trees modulo source positions",
    )
    R.undecided("numeric evaluation itself (nothing is evaluated); non-numeric operands of + and * (outside the statement's scope)")

    # the recursive tree walk: the nested function that tests the operator of its own first parameter
    inner_norm = next((n for n in ast.walk(fn) if isinstance(n, FuncNode) and n is not fn and n.args.args
                       and any(v == n.args.args[0].arg for t in walk_no_nested(n) if isinstance(t, ast.If) for v, _c in find_isinstance_on_op(t.test))), None)
    if inner_norm is None:
        inner_norm = next((n for n in ast.walk(fn) if isinstance(n, FuncNode) and n is not fn and n.name == "norm"), None)
    if inner_norm is None:
        # normaliser may have been flattened into the outer function
        inner_norm = fn
    nparam = inner_norm.args.args[0].arg if inner_norm.args.args else "n"

    # ---- D1a selecting test --------------------------------------------
    r_ops = R.rule("C12-D1a-ops", "the flatten/sort path is selected for ast.Add and ast.Mult only", 1)
    select_if: Optional[ast.If] = None
    for st in walk_no_nested(inner_norm):
        if not isinstance(st, ast.If):
            continue
        tests = [c for c in ast.walk(st.test) if isinstance(c, ast.Call) and call_attr(c) == "isinstance" and len(c.args) == 2 and dotted_name(c.args[0]) == f"{nparam}.op"]
        if not tests:
            continue
        # every value the class argument of the test can take: written in place, a module constant, a local, or a parameter
        # of the normaliser (its default and what each call passes for it)
        srcs = op_class_sources(tests[0].args[1], tests[0], fn)
        if not any(isinstance(c, ast.Attribute) for c, _o in srcs):
            continue
        select_if = st
        by_origin: Dict[int, Tuple[ast.AST, List[ast.AST]]] = {}
        for c, origin in srcs:
            by_origin.setdefault(id(origin), (origin, []))[1].append(c)
        for origin, classes in by_origin.values():
            names = [dotted_name(c) for c in classes]
            if any(n is None for n in names):
                raise AnalysisError(f"_dump_ast_commutative: operator classes `{norm(origin)}` of the selecting test cannot be resolved")
            bad = sorted({n for n in names if n.split(".")[-1] not in COMMUTATIVE})
            where = st if any(origin is x for x in ast.walk(st.test)) else stmt_of(origin)
            R.check(not bad, r_ops, SEM, qualname_of(inner_norm), norm(where),
                    f"operators treated as commutative/associative include {bad}: the flatten/sort/refold path re-orders and re-associates their operands, so expressions with different values get one signature", getattr(origin, "lineno", st.lineno))
        break
    if select_if is None:
        raise AnalysisError("_dump_ast_commutative: commutative-operator selecting test not found")
    # every other isinstance(.op, literal classes) in the function must also stay within +,*
    for n in ast.walk(fn):
        if isinstance(n, (ast.If, ast.While, ast.IfExp)) and n is not select_if:
            for var, classes in find_isinstance_on_op(n.test):
                lits = [dotted_name(c) for c in classes if isinstance(c, ast.Attribute)]
                bad = [x for x in lits if x and x.split(".")[-1] not in COMMUTATIVE]
                if lits:
                    R.check(not bad, r_ops, SEM, qualname_of(fn), norm(n) if not isinstance(n, ast.IfExp) else norm(n.test),
                            f"additional operator test admits {bad}", n.lineno)

    branch = select_if.body
    branch_nodes = {id(x) for st in branch for x in ast.walk(st)}

    # op_type = type(n.op)
    op_vars: Set[str] = set()
    for st in branch:
        if isinstance(st, ast.Assign) and isinstance(st.value, ast.Call) and call_attr(st.value) == "type" and len(st.value.args) == 1 and dotted_name(st.value.args[0]) == f"{nparam}.op":
            op_vars |= {t.id for t in st.targets if isinstance(t, ast.Name)}

    def type_of_op(e: Optional[ast.AST]) -> bool:
        """*e* is ``type(<n>.op)`` written where <n> still is the node the tree walk was called with (the captured operator
        class without a local of its own): inside the walk or a function nested in it that does not rebind the name."""
        if not (isinstance(e, ast.Call) and isinstance(e.func, ast.Name) and e.func.id == "type" and len(e.args) == 1 and not e.keywords
                and dotted_name(e.args[0]) == f"{nparam}.op"):
            return False
        if any(isinstance(x, ast.Name) and x.id == nparam and isinstance(x.ctx, (ast.Store, ast.Del)) for x in ast.walk(inner_norm)):
            return False
        for a in ancestors(e):
            if a is inner_norm:
                return True
            if isinstance(a, FuncNode + (ast.Lambda,)) and nparam in _params(a):
                return False
        return False

    # ---- D1b flattening ---------------------------------------------------
    r_flat = R.rule("C12-D1b-flatten", "operands are collected through same-operator BinOps only, and completely: an expression enters the operand list only on a branch where it is known not to be a same-operator BinOp; both children of a matched BinOp are forwarded", 3)
    # operand list: a local bound to a fresh empty list in the branch that is filled there - in place, by a nested helper that
    # closes over it, or by a helper (nested or module-level, recursive or not) that receives it as an argument: the list and
    # the captured operator class are followed into the helper's parameters (`_fill_sites`)
    terms_name = None
    append_sites: List[Tuple[ast.AST, ast.Call, Set[str]]] = []
    for st in branch:
        tgt = None
        if isinstance(st, ast.Assign) and len(st.targets) == 1 and isinstance(st.targets[0], ast.Name):
            tgt, val = st.targets[0].id, st.value
        elif isinstance(st, ast.AnnAssign) and isinstance(st.target, ast.Name):
            tgt, val = st.target.id, st.value
        if tgt and val is not None and _empty_list(val):
            sites = _fill_sites(list(branch), inner_norm, tgt, set(op_vars), fn, mod_tree, None, type_of_op)
            if sites:
                terms_name, append_sites = tgt, sites
                break
    if terms_name is None:
        raise AnalysisError("_dump_ast_commutative: operand list not found in the commutative branch")

    def match_atom_for(var: str):
        def atom(e: ast.AST) -> Optional[bool]:
            # isinstance(var, ast.BinOp) and isinstance(var.op, <same op>)
            if isinstance(e, ast.BoolOp) and isinstance(e.op, ast.And):
                a = any(isinstance_classes(v, var) is not None and {dotted_name(c) for c in isinstance_classes(v, var)} <= {"ast.BinOp", "BinOp"} for v in e.values)
                b = any(isinstance_classes(v, f"{var}.op") is not None for v in e.values)
                if a and b and len(e.values) == 2:
                    return True
            return None
        return atom

    matched_vars: Set[str] = set()
    for f, call, site_ops in append_sites:
        if f is None:
            raise AnalysisError("append outside a function")
        g = CFG(f)
        arg = call.args[-1] if call.args else None
        var = dotted_name(arg) if arg is not None else None
        stmt_nodes = [n for n in g.nodes if n.ast is not None and n.kind == "stmt" and any(c is call for c in calls_in(n.ast))]
        if call.func.attr != "append" or var is None or not stmt_nodes:
            R.violation(r_flat, SEM, qualname_of(f), norm(call), "operand list filled by an unrecognised form; completeness of flattening not established", call.lineno)
            continue
        atom = match_atom_for(var)
        blocked = set()
        guards = 0
        same_op_ok = True
        for n in g.nodes:
            if n.kind in ("if", "while") and n.part is not None:
                e = edges_guaranteeing(n.part, lambda x: (False if atom(x) else None))  # edges on which NOT match(var) holds
                if e:
                    guards += 1
                    # second isinstance argument must be the captured operator type
                    for v, classes in find_isinstance_on_op(n.part):
                        if v == var:
                            names = [dotted_name(c) for c in classes]
                            if not (len(classes) == 1 and (names[0] in site_ops or type_of_op(classes[0]))):
                                same_op_ok = False
                for lab in e:
                    blocked.add((n.id, lab))
        seen = g.reach([g.entry], blocked_edges=blocked)
        reach_unguarded = stmt_nodes[0].id in seen
        R.check(not reach_unguarded and guards > 0, r_flat, SEM, qualname_of(f), norm(call),
                f"`{var}` is added to the operand list on a path where it may still be a same-operator BinOp (chain not fully flattened: re-association changes the signature)",
                call.lineno, g.path_to(seen, stmt_nodes[0].id) if reach_unguarded else None)
        R.check(same_op_ok, r_flat, SEM, qualname_of(f), norm(call) + " [same operator]",
                "flattening descends through an operator other than the one being normalised (mixes + and * chains)", call.lineno)
        matched_vars.add(var)
    # both children of a matched node forwarded
    for f in {id(f): f for f, _c, _o in append_sites}.values():
        used = {dotted_name(x) for x in ast.walk(f) if isinstance(x, ast.Attribute)}
        for var in sorted(matched_vars):
            base = var.split(".")[0]
            R.check({f"{base}.left", f"{base}.right"} <= used, r_flat, SEM, qualname_of(f), f"children of matched `{base}` forwarded",
                    "a child of a matched same-operator BinOp is not forwarded (operand dropped)", f.lineno)

    # ---- D1c multiset preservation, normalise before sort, total key ------------
    r_ms = R.rule("C12-D1c-multiset", "from the collected operand list to the rebuilt chain every operand is kept exactly once: normalised by norm(), sorted by the full ast.dump of the term, folded left to right", 4)
    # derive chain of variables starting at terms_name
    derived: Dict[str, List[str]] = {terms_name: []}  # var -> step kinds so far
    fold_seen = False
    sort_seen_for: Set[str] = set()
    normed: Set[str] = set()

    def classify(expr: ast.AST) -> Tuple[Optional[str], str]:
        """(source var, kind) where kind in preserving|norm-map|sort|lossy|unknown."""
        if isinstance(expr, ast.Name) and expr.id in derived:
            return expr.id, "preserving"
        if isinstance(expr, ast.ListComp) and len(expr.generators) == 1:
            gen = expr.generators[0]
            src, kind = classify(gen.iter)
            if src is None:
                return None, "unknown"
            if gen.ifs:
                return src, "lossy"
            k = "preserving"
            if isinstance(expr.elt, ast.Call) and call_attr(expr.elt) == inner_norm.name:
                k = "norm-map"
            elif isinstance(expr.elt, ast.Subscript):
                # [d[k] for k in sorted(d)] - element looked up through a mapping
                return src, "lossy"
            return src, k if kind == "preserving" else kind if kind != "preserving" else k
        if isinstance(expr, (ast.SetComp, ast.DictComp)):
            for gen in expr.generators:
                src, _ = classify(gen.iter)
                if src is not None:
                    return src, "lossy"
            return None, "unknown"
        if isinstance(expr, ast.Subscript):
            src, kind = classify(expr.value)
            if src is not None and isinstance(expr.slice, ast.Slice):
                return src, "lossy"
            return None, "unknown"
        if isinstance(expr, ast.Call):
            name = call_attr(expr)
            args = list(expr.args)
            if name == "map" and len(args) == 2:
                src, kind = classify(args[1])
                if src is not None:
                    is_norm = isinstance(args[0], ast.Name) and args[0].id == inner_norm.name
                    return src, kind if kind != "preserving" else ("norm-map" if is_norm else "preserving")
            if name in LOSSY_CALLS:
                for a in args:
                    src, _ = classify(a)
                    if src is not None:
                        return src, "lossy"
            if name in PRESERVING_CALLS and args:
                src, kind = classify(args[-1] if name == "cast" else args[0])
                if src is not None:
                    if name == "sorted" and kind == "preserving":
                        return src, "sort"
                    return src, kind
            for a in args:
                src, _ = classify(a)
                if src is not None:
                    return src, "unknown"
        return None, "unknown"

    def key_ok(key: Optional[ast.AST]) -> bool:
        # the key denotes t -> ast.dump(t, include_attributes=False), however it is spelled (lambda, partial, named local)
        return key is not None and plain_dump_fn(key, parent(key) or inner_norm, mod_tree)

    def as_comprehension(i: int) -> Optional[Tuple[str, ast.AST]]:
        """Statement *i* of the branch read as ``X = [E for t in IT]`` / ``[.. if C]`` when it is the accumulate loop
        ``for t in IT: X.append(E)`` (optionally under one ``if C:``) over a list X that the branch bound to a fresh empty
        list before the loop and did not mention in between."""
        lp = branch[i]
        if not isinstance(lp, ast.For) or lp.orelse or len(lp.body) != 1:
            return None
        inner, ifs = lp.body[0], []
        if isinstance(inner, ast.If) and not inner.orelse and len(inner.body) == 1:
            inner, ifs = inner.body[0], [inner.test]
        c = inner.value if isinstance(inner, ast.Expr) else None
        if not (isinstance(c, ast.Call) and isinstance(c.func, ast.Attribute) and c.func.attr == "append" and isinstance(c.func.value, ast.Name)
                and len(c.args) == 1 and not c.keywords and not isinstance(c.args[0], ast.Starred)):
            return None
        acc_name = c.func.value.id
        if acc_name == terms_name or any(isinstance(x, ast.Name) and x.id == acc_name for part in (lp.target, lp.iter, c.args[0], *ifs) for x in ast.walk(part)):
            return None
        for j in range(i - 1, -1, -1):
            prev = branch[j]
            tg = prev.targets if isinstance(prev, ast.Assign) else [prev.target] if isinstance(prev, ast.AnnAssign) else []
            if len(tg) == 1 and isinstance(tg[0], ast.Name) and tg[0].id == acc_name:
                if prev.value is not None and _empty_list(prev.value):
                    comp = ast.ListComp(elt=c.args[0], generators=[ast.comprehension(target=lp.target, iter=lp.iter, ifs=ifs, is_async=0)])
                    return acc_name, ast.copy_location(comp, lp)
                return None
            if any(isinstance(x, ast.Name) and x.id == acc_name for x in ast.walk(prev)):
                return None
        return None

    fold_var = None
    for i_st, st in enumerate(branch):
        loop_form = as_comprehension(i_st)
        if isinstance(st, (ast.Assign, ast.AnnAssign)) or loop_form is not None:
            if loop_form is not None:
                tname, val = loop_form
            else:
                tgts = st.targets if isinstance(st, ast.Assign) else [st.target]
                val = st.value
                if val is None or not (len(tgts) == 1 and isinstance(tgts[0], ast.Name)):
                    continue
                tname = tgts[0].id
            if tname == terms_name:
                continue
            src, kind = classify(val)
            if src is None:
                continue
            steps = derived[src] + [kind]
            derived[tname] = steps
            if kind == "lossy" or kind == "unknown":
                R.violation(r_ms, SEM, qualname_of(inner_norm), norm(st),
                            "operand multiset is not preserved here (set/dict/filter/slice between collection and refold): repeated or distinct operands can be merged or dropped, so different values share a signature" if kind == "lossy"
                            else "operand list flows through a transformation not known to keep every operand exactly once", st.lineno)
            if kind == "sort" or (isinstance(val, ast.Call) and call_attr(val) == "sorted"):
                if isinstance(val, ast.Call) and call_attr(val) == "sorted":
                    R.check(key_ok(kwarg(val, "key")), r_ms, SEM, qualname_of(inner_norm), norm(st), "sort key is not the full ast.dump of the term without positions (ties or positions make the order input-dependent)", st.lineno)
                    R.check("norm-map" in derived[src] or "norm-map" in steps, r_ms, SEM, qualname_of(inner_norm), norm(st) + " [after norm]", "operands are sorted before their sub-terms are normalised", st.lineno)
                    sort_seen_for.add(tname)
        elif isinstance(st, ast.Expr) and isinstance(st.value, ast.Call) and call_attr(st.value) == "sort" and isinstance(st.value.func, ast.Attribute):
            recv = dotted_name(st.value.func.value)
            if recv in derived:
                R.check(key_ok(kwarg(st.value, "key")), r_ms, SEM, qualname_of(inner_norm), norm(st), "sort key is not the full ast.dump of the term without positions (ties or positions make the order input-dependent)", st.lineno)
                R.check("norm-map" in derived[recv], r_ms, SEM, qualname_of(inner_norm), norm(st) + " [after norm]", "operands are sorted before their sub-terms are normalised", st.lineno)
                derived[recv] = derived[recv] + ["sort"]
                sort_seen_for.add(recv)
    # fold: current = X[0]; for t in X[1:]: current = BinOp(left=current, op=op(), right=t); return current
    fold_for = None
    for st in branch:
        if isinstance(st, ast.For) and isinstance(st.iter, ast.Subscript) and dotted_name(st.iter.value) in derived:
            fold_for = st
    if fold_for is None:
        raise AnalysisError("_dump_ast_commutative: refold loop over the operand list not recognised")
    fv = dotted_name(fold_for.iter.value)
    sl = fold_for.iter.slice
    tail_ok = isinstance(sl, ast.Slice) and isinstance(sl.lower, ast.Constant) and sl.lower.value == 1 and sl.upper is None and sl.step is None
    R.check(tail_ok, r_ms, SEM, qualname_of(inner_norm), norm(fold_for), "refold does not iterate over all remaining operands [1:]", fold_for.lineno)
    head_ok = False
    acc = None
    head_names: Set[str] = set()  # locals that hold the first operand (the element itself, a cast of it, a copy of such a local)

    def uncast(v: Optional[ast.AST]) -> Optional[ast.AST]:
        while isinstance(v, ast.Call) and call_attr(v) == "cast" and len(v.args) == 2 and not v.keywords:
            v = v.args[1]
        return v

    for st in branch:
        if isinstance(st, (ast.Assign, ast.AnnAssign)) and len(_store_targets(st)) == 1 and isinstance(_store_targets(st)[0], ast.Name) and st.value is not None \
                and (isinstance(st, ast.AnnAssign) or len(st.targets) == 1):
            v = uncast(st.value)
            if isinstance(v, ast.Subscript) and dotted_name(v.value) == fv and isinstance(v.slice, ast.Constant) and v.slice.value == 0:
                head_ok = True
                acc = _store_targets(st)[0].id
                head_names.add(acc)
            elif isinstance(v, ast.Name) and v.id in head_names:
                acc = _store_targets(st)[0].id
                head_names.add(acc)
    R.check(head_ok, r_ms, SEM, qualname_of(inner_norm), f"{acc} = {fv}[0]", "refold does not start from the first operand", fold_for.lineno)
    steps = derived.get(fv, [])
    R.check("norm-map" in steps and "sort" in steps and "lossy" not in steps and "unknown" not in steps, r_ms, SEM, qualname_of(inner_norm),
            f"operand chain {terms_name} -> {fv}: {steps}", "the list that is refolded was not (normalised, then sorted) from the full operand list", fold_for.lineno)
    # loop body: acc = ast.BinOp(left=acc, op=<op_var>(), right=<loop var or cast of it>)
    body_ok = False
    for st in fold_for.body:
        if isinstance(st, ast.Assign) and isinstance(st.value, ast.Call) and call_name(st.value) in ("ast.BinOp", "BinOp"):
            c = st.value
            left, right, op = kwarg(c, "left"), kwarg(c, "right"), kwarg(c, "op")
            if c.args:
                left = left or (c.args[0] if len(c.args) > 0 else None)
                op = op or (c.args[1] if len(c.args) > 1 else None)
                right = right or (c.args[2] if len(c.args) > 2 else None)
            lv = isinstance(fold_for.target, ast.Name) and fold_for.target.id
            # allow: term_expr = cast(ast.expr, term)
            alias = {lv}
            for s2 in fold_for.body:
                if isinstance(s2, ast.Assign) and isinstance(s2.targets[0], ast.Name) and lv in {n.id for n in ast.walk(s2.value) if isinstance(n, ast.Name)}:
                    alias.add(s2.targets[0].id)
            left, right = uncast(left), uncast(right)
            body_ok = (
                isinstance(left, ast.Name) and left.id in head_names
                and isinstance(op, ast.Call) and not op.args and not op.keywords and ((isinstance(op.func, ast.Name) and op.func.id in op_vars) or type_of_op(op.func))
                and isinstance(right, ast.Name) and right.id in alias
                and any(isinstance(t, ast.Name) and t.id == left.id for t in st.targets)
            )
    R.check(body_ok, r_ms, SEM, qualname_of(inner_norm), "refold body: acc = BinOp(left=acc, op=op_type(), right=term)", "refold does not rebuild the chain from every operand with the same operator", fold_for.lineno)

    # ---- D1d nothing else reordered / rewritten --------------------------------
    r_else = R.rule("C12-D1d-else", "outside the +/* branch the tree is rebuilt field by field in order: no other sort/reverse/set, no node construction, no rewriting of constants, names or call targets", 2)
    n_checked = 0
    for n in ast.walk(fn):
        if isinstance(n, ast.Call):
            nm = call_attr(n)
            if nm in ("sorted", "sort", "reversed", "reverse", "set", "frozenset", "shuffle") and id(n) not in branch_nodes:
                R.violation(r_else, SEM, qualname_of(fn), norm(n), "operands of a non-commutative construct are reordered or merged", n.lineno)
            d = call_name(n)
            if d and d.startswith("ast.") and d[4:5].isupper():
                n_checked += 1
                inside = id(n) in branch_nodes
                ok = inside and d == "ast.BinOp"
                R.check(ok, r_else, SEM, qualname_of(fn), norm(n), "the normaliser constructs/rewrites nodes other than the refolded +/* chain", n.lineno)
        if isinstance(n, ast.Assign):
            for t in _store_targets(n):
                if isinstance(t, ast.Attribute) and t.attr in NODE_FIELDS:
                    R.violation(r_else, SEM, qualname_of(fn), norm(n), f"explicit rewrite of .{t.attr} in the normaliser", n.lineno)
    # the same holds for every other function / class of the module that the signature function brings in (a tree rewritten
    # before or after the normaliser is part of the normal form): found through the names it refers to, methods included
    for helper in signature_closure(repo, "normalize_expression_sig_v1", exclude=(fn,)):
        for n in ast.walk(helper):
            if isinstance(n, ast.Call):
                nm = call_attr(n)
                d = call_name(n)
                if nm in ("sorted", "sort", "reversed", "reverse", "set", "frozenset", "shuffle"):
                    R.violation(r_else, SEM, qualname_of(helper), norm(stmt_of(n)), f"`{nm}()` in code the signature function runs on the expression tree besides the +/* normaliser: operands of a construct that is not known to be commutative and associative (comparison chains, calls, non-commutative operators) are reordered or merged", n.lineno)
                elif d and d.startswith("ast.") and d[4:5].isupper():
                    R.violation(r_else, SEM, qualname_of(helper), norm(stmt_of(n)), "nodes are constructed / rewritten outside the +/* normaliser on the way to the signature", n.lineno)
            elif isinstance(n, (ast.Assign, ast.AugAssign, ast.AnnAssign)):
                for t in _store_targets(n):
                    if isinstance(t, ast.Attribute) and t.attr in NODE_FIELDS:
                        R.violation(r_else, SEM, qualname_of(helper), norm(n), f"explicit rewrite of .{t.attr} of a node on the way to the signature", n.lineno)
    # generic rebuild loop: for field, value in ast.iter_fields(n): setattr(n, field, norm(value)) / list comp over value in order
    gen_loops = [n for n in ast.walk(inner_norm) if isinstance(n, ast.For) and isinstance(n.iter, ast.Call) and call_name(n.iter) == "ast.iter_fields"]
    if not gen_loops:
        raise AnalysisError("generic field-by-field rebuild loop (ast.iter_fields) not found")
    for lp in gen_loops:
        ok = True
        for c in calls_in(lp):
            if call_attr(c) == "setattr":
                v = c.args[2] if len(c.args) > 2 else None
                if isinstance(v, ast.ListComp):
                    gen = v.generators[0]
                    ok = ok and isinstance(gen.iter, ast.Name) and not gen.ifs
        R.check(ok, r_else, SEM, qualname_of(inner_norm), norm(lp), "list-valued fields are not rebuilt element by element in order", lp.lineno)

    # ---- D1e signature is the dump of the whole normalised tree --------------------
    r_sig = R.rule("C12-D1e-signature", "the signature is ast.dump (without positions) of the whole normalised tree of the whole parsed expression", 3)
    rets = [n for n in walk_no_nested(fn) if isinstance(n, ast.Return) and n.value is not None]
    for r in rets:
        v = r.value
        dumped = plain_dump_arg(v, r, mod_tree)
        ok = isinstance(dumped, ast.Name)
        if ok:
            # the dumped name = norm(<expr built from the parameter>)
            nm = dumped.id
            defs = [a for a in walk_no_nested(fn) if isinstance(a, ast.Assign) and any(isinstance(t, ast.Name) and t.id == nm for t in a.targets)]
            p0 = fn.args.args[0].arg
            ok = len(defs) == 1 and isinstance(defs[0].value, ast.Call) and call_attr(defs[0].value) == inner_norm.name and p0 in {x.id for x in ast.walk(defs[0].value) if isinstance(x, ast.Name)} \
                and not any(isinstance(x, (ast.Attribute, ast.Subscript)) and not (isinstance(x, ast.Attribute) and dotted_name(x) in ("ast.fix_missing_locations",)) for x in ast.walk(defs[0].value))
        R.check(bool(ok), r_sig, SEM, qualname_of(fn), norm(r), "the returned signature is not the position-free dump of the complete normalised tree", r.lineno)
    if not rets:
        raise AnalysisError("_dump_ast_commutative has no return")
    sigfn = repo.func(SEM, "normalize_expression_sig_v1")
    p0 = sigfn.args.args[0].arg
    parse = [c for c in calls_in(sigfn) if call_name(c) == "ast.parse"]
    ok = len(parse) == 1 and parse[0].args and isinstance(parse[0].args[0], ast.Name) and parse[0].args[0].id == p0
    R.check(ok, r_sig, SEM, "normalize_expression_sig_v1", norm(parse[0]) if parse else "ast.parse(expr)", "the signature is not computed from the expression text as given", sigfn.lineno)
    dumps = [c for c in calls_in(sigfn) if call_attr(c) == fn.name]
    ok = False
    tree_names: set = set()
    if len(dumps) == 1 and dumps[0].args:
        a = dumps[0].args[0]
        tree_names = {t.id for n in walk_no_nested(sigfn) if isinstance(n, ast.Assign) and n.value in parse for t in n.targets if isinstance(t, ast.Name)}
        ok = (isinstance(a, ast.Attribute) and a.attr == "body" and isinstance(a.value, ast.Name) and a.value.id in tree_names) or (isinstance(a, ast.Name) and a.id in tree_names)
    if not ok and len(dumps) == 1 and dumps[0].args:
        a = dumps[0].args[0]
        a = a.value if isinstance(a, ast.Attribute) and a.attr == "body" else a
        ok = a in parse
    R.check(ok, r_sig, SEM, "normalize_expression_sig_v1", norm(dumps[0]) if dumps else f"{fn.name}(tree.body)", "the normaliser is not applied to the whole parsed expression", sigfn.lineno)
    # the parsed tree reaches the normaliser untouched: its only uses are its definition and the normaliser argument
    if len(dumps) == 1:
        allowed = {id(x) for x in ast.walk(dumps[0])}
        stray = [n for n in walk_no_nested(sigfn) if isinstance(n, ast.Name) and n.id in tree_names and isinstance(n.ctx, ast.Load) and id(n) not in allowed]
        for n in stray:
            R.violation(r_sig, SEM, "normalize_expression_sig_v1", norm(stmt_of(n)), "the parsed tree is read or rewritten before it reaches the normaliser (the signature is no longer that of the expression as written)", n.lineno)
        if not stray:
            R.ok(r_sig, SEM, "normalize_expression_sig_v1", "uses of the parsed tree: definition and normaliser argument only")
    # returned mapping carries the dump under "ast"
    for r in [n for n in walk_no_nested(sigfn) if isinstance(n, ast.Return)]:
        v = r.value
        ok = isinstance(v, ast.Dict) and any(isinstance(k, ast.Constant) and k.value == "ast" and val in dumps for k, val in zip(v.keys, v.values))
        R.check(ok, r_sig, SEM, "normalize_expression_sig_v1", norm(r), "signature mapping does not carry the full canonical dump", r.lineno)

    # ---- D2 / D3: what the package does with a signature (the boundary conditions of the normaliser) ----------
    boundary_rules(repo, R, sigfn.name)


# =============================================================================================================
# D2 pairing: a published signature sits under the name of the parameter whose expression it was computed from
# D3 one meaning per signature: the evaluated source is the published source; function names mean the same
#    functions for every evaluator
# =============================================================================================================

ORDER_KEEPING = {"list", "tuple", "iter", "cast"}
ORDER_CHANGING = {"sorted", "reversed", "set", "frozenset", "shuffle", "sample"}
FRESH_CALLS = {"dict", "copy", "deepcopy", "OrderedDict", "MappingProxyType", "fromkeys"}


def _u(e: ast.AST) -> str:
    try:
        return ast.unparse(e)
    except Exception:  # pragma: no cover
        return "<expr>"


def _params(fn: ast.AST) -> Set[str]:
    a = fn.args
    out = {x.arg for x in a.args + a.kwonlyargs + a.posonlyargs}
    if a.vararg:
        out.add(a.vararg.arg)
    if a.kwarg:
        out.add(a.kwarg.arg)
    return out


def _defs_of(fn: ast.AST, name: str) -> List[ast.AST]:
    """Right-hand sides bound to the local *name* by plain assignments (None when bound in any other way)."""
    out: List[ast.AST] = []
    for n in walk_no_nested(fn):
        if isinstance(n, ast.Assign):
            for t in n.targets:
                if isinstance(t, ast.Name) and t.id == name:
                    out.append(n.value)
                elif isinstance(t, (ast.Tuple, ast.List)) and any(isinstance(x, ast.Name) and x.id == name for x in ast.walk(t)):
                    out.append(None)
        elif isinstance(n, ast.AnnAssign) and isinstance(n.target, ast.Name) and n.target.id == name and n.value is not None:
            out.append(n.value)
        elif isinstance(n, (ast.AugAssign, ast.NamedExpr)) and isinstance(n.target, ast.Name) and n.target.id == name:
            out.append(None)
    return out


class _Stream:
    """Elements of an iterable, described by the mapping they come from: (root text, component, re-ordering)."""

    def __init__(self, root: str, comp: str, reorder: Optional[str] = None):
        self.root, self.comp, self.reorder = root, comp, reorder

    def but(self, **kw) -> "_Stream":
        s = _Stream(self.root, self.comp, self.reorder)
        for k, v in kw.items():
            setattr(s, k, v)
        return s


def _peel(e: ast.AST) -> ast.AST:
    while isinstance(e, ast.Call) and call_attr(e) in ORDER_KEEPING and e.args and not isinstance(e.func, ast.Attribute):
        e = e.args[-1] if call_attr(e) == "cast" else e.args[0]
    return e


def _stream(fn: ast.AST, e: ast.AST, depth: int = 0) -> Optional[_Stream]:
    """Stream descriptor of the iterable *e* (None: not understood)."""
    if depth > 8 or e is None:
        return None
    e = _peel(e)
    if isinstance(e, ast.BoolOp) and isinstance(e.op, ast.Or) and e.values:
        return _stream(fn, e.values[0], depth + 1)
    if isinstance(e, ast.Call):
        nm = call_attr(e)
        if isinstance(e.func, ast.Attribute) and nm in ("items", "keys", "values") and not e.args:
            base = _stream(fn, e.func.value, depth + 1)
            if base is None or base.comp != "key":
                return None
            return base.but(comp={"items": "item", "keys": "key", "values": "value"}[nm])
        if nm in ORDER_CHANGING and e.args and not isinstance(e.func, ast.Attribute):
            s = _stream(fn, e.args[0], depth + 1)
            return s.but(reorder=f"{nm}()") if s else None
        if nm == "map" and len(e.args) == 2:
            return _stream(fn, e.args[1], depth + 1)
        if nm == "getattr" or nm == "get":
            return _Stream(_u(e), "key")
        return None
    if isinstance(e, (ast.ListComp, ast.GeneratorExp)):
        if len(e.generators) != 1:
            return None
        g = e.generators[0]
        s = _stream(fn, g.iter, depth + 1)
        if s is None:
            return None
        if g.ifs:
            s = s.but(reorder="a filter")
        if s.comp == "item" and isinstance(g.target, ast.Tuple) and len(g.target.elts) == 2 and isinstance(e.elt, ast.Name):
            k, v = g.target.elts
            if isinstance(k, ast.Name) and e.elt.id == k.id:
                return s.but(comp="key")
            if isinstance(v, ast.Name) and e.elt.id == v.id:
                return s.but(comp="value")
        return s
    if isinstance(e, ast.Subscript):
        if isinstance(e.slice, ast.Slice):
            s = _stream(fn, e.value, depth + 1)
            return s.but(reorder="a slice") if s else None
        return None
    if isinstance(e, ast.Attribute):
        return _Stream(_u(e), "key")
    if isinstance(e, ast.Name):
        defs = _defs_of(fn, e.id)
        if len(defs) == 1 and defs[0] is not None:
            d = defs[0]
            grown = [c for c in calls_in(fn) if isinstance(c.func, ast.Attribute) and dotted_name(c.func.value) == e.id and c.func.attr in ("append", "extend", "insert", "sort", "reverse", "pop", "remove")]
            if isinstance(d, ast.List) and not d.elts:
                # filled by one unconditional append per step of one loop
                if len(grown) == 1 and grown[0].func.attr == "append":
                    st = stmt_of(grown[0])
                    lp = parent(st)
                    if isinstance(lp, ast.For) and any(st is x for x in lp.body) and not lp.orelse and not any(isinstance(x, (ast.Break, ast.Continue)) for x in ast.walk(lp)):
                        return _stream(fn, lp.iter, depth + 1)
                    if isinstance(lp, ast.For) or any(isinstance(a, ast.For) for a in ancestors(st)):
                        lp2 = next(a for a in [lp] + list(ancestors(st)) if isinstance(a, ast.For))
                        s = _stream(fn, lp2.iter, depth + 1)
                        return s.but(reorder="a conditional append") if s else None
                return None
            if grown:
                why = sorted({c.func.attr for c in grown})
                s = _stream(fn, d, depth + 1)
                return s.but(reorder=f".{why[0]}()") if s else None
            s = _stream(fn, d, depth + 1)
            if s is not None and not (isinstance(_peel(d), ast.Call) and call_attr(_peel(d)) in ("getattr", "get")):
                return s
            return _Stream(e.id, "key")
        if not defs:
            return _Stream(e.id, "key")
        return None
    return None


class _Row:
    """What a name bound by a loop / comprehension clause stands for."""

    def __init__(self, binder: ast.AST, s: _Stream, same_item: bool):
        self.binder, self.s, self.same_item = binder, s, same_item


def _bind(fn: ast.AST, binder: ast.AST, target: ast.AST, it: ast.AST, env: Dict[str, _Row]) -> None:
    core = it
    # order-changing wrappers around an item stream keep key and value of one item together
    while isinstance(core, ast.Call) and not isinstance(core.func, ast.Attribute) and call_attr(core) in ORDER_KEEPING | ORDER_CHANGING and core.args:
        core = core.args[-1] if call_attr(core) == "cast" else core.args[0]
    if isinstance(core, ast.Call) and call_attr(core) == "enumerate" and core.args and isinstance(target, ast.Tuple) and len(target.elts) == 2:
        _bind(fn, binder, target.elts[1], core.args[0], env)
        return
    if isinstance(core, ast.Call) and call_attr(core) == "zip" and isinstance(target, ast.Tuple) and len(target.elts) == len(core.args) and core is it:
        for t, a in zip(target.elts, core.args):
            _bind(fn, binder, t, a, env)
        return
    s_core = _stream(fn, core)
    if s_core is not None and s_core.comp == "item" and isinstance(target, ast.Tuple) and len(target.elts) == 2:
        k, v = target.elts
        s_full = _stream(fn, it) or s_core
        if isinstance(k, ast.Name):
            env[k.id] = _Row(binder, s_full.but(comp="key"), True)
        if isinstance(v, ast.Name):
            env[v.id] = _Row(binder, s_full.but(comp="value"), True)
        return
    s = _stream(fn, it)
    if s is not None and isinstance(target, ast.Name):
        env[target.id] = _Row(binder, s, False)


def _env_at(fn: ast.AST, node: ast.AST) -> Dict[str, _Row]:
    env: Dict[str, _Row] = {}
    chain: List[ast.AST] = []
    for a in ancestors(node):
        if a is fn:
            break
        chain.append(a)
    for a in reversed(chain):
        if isinstance(a, ast.For):
            _bind(fn, a, a.target, a.iter, env)
        elif isinstance(a, (ast.ListComp, ast.SetComp, ast.GeneratorExp, ast.DictComp)):
            for g in a.generators:
                _bind(fn, a, g.target, g.iter, env)
    return env


def _pair_verdict(fn: ast.AST, key: ast.AST, val: ast.AST, at: ast.AST) -> Optional[str]:
    """None: key and val provably belong to the same item (or nothing is known about val); else what is wrong."""
    env = _env_at(fn, at)
    k = key
    while isinstance(k, ast.Call) and call_attr(k) in ("str", "cast") and k.args:
        k = k.args[-1]
    v = val
    seen = 0
    while isinstance(v, ast.Name) and v.id not in env and seen < 4:
        d = _defs_of(fn, v.id)
        if len(d) != 1 or d[0] is None:
            break
        v, seen = d[0], seen + 1
    # looked up by key: M[k] / M.get(k)
    look = None
    if isinstance(v, ast.Subscript) and not isinstance(v.slice, ast.Slice):
        look = (v.value, v.slice)
    elif isinstance(v, ast.Call) and call_attr(v) == "get" and isinstance(v.func, ast.Attribute) and v.args:
        look = (v.func.value, v.args[0])
    if look is not None:
        if isinstance(look[1], ast.Constant):
            return None
        return None if _u(look[1]) == _u(k) else f"the signature of `{_u(v)}` is stored under `{_u(key)}`"
    if not (isinstance(v, ast.Name) and v.id in env):
        return None
    rv = env[v.id]
    if not (isinstance(k, ast.Name) and k.id in env):
        return f"the signature of an element of `{rv.s.root}` is stored under `{_u(key)}`, which is not the name bound together with it"
    rk = env[k.id]
    if rk.binder is not rv.binder:
        return f"`{_u(key)}` and `{v.id}` are bound by different traversals"
    if rk.s.root != rv.s.root:
        return f"`{_u(key)}` runs over `{rk.s.root}` but the signature is that of an element of `{rv.s.root}`"
    if rk.s.comp != "key":
        return f"`{_u(key)}` is not the parameter name of the item"
    if rk.same_item and rv.same_item:
        return None
    bad = rk.s.reorder or rv.s.reorder
    if bad:
        side = "names" if rk.s.reorder else "signatures"
        return f"names and signatures are matched by position, but the {side} went through {bad}: a signature lands under another parameter's name"
    return None


def _records_shared(fn: ast.AST, holder: ast.AST) -> Optional[str]:
    """*holder* is a mapping name -> record that is filled in place (``holder[name][c] = ..``).  None when every name is
    known to have a record of its own; else what is wrong."""
    if not isinstance(holder, ast.Name):
        return f"signatures are written into the records of `{_u(holder)}` and it is not known that every parameter has a record of its own"
    creators: List[ast.AST] = [d for d in _defs_of(fn, holder.id)]
    per_key: List[ast.AST] = []
    for n in walk_no_nested(fn):
        if isinstance(n, ast.Assign):
            for t in n.targets:
                if isinstance(t, ast.Subscript) and isinstance(t.value, ast.Name) and t.value.id == holder.id:
                    per_key.append(n.value)
        elif isinstance(n, ast.Call) and isinstance(n.func, ast.Attribute) and n.func.attr == "setdefault" and isinstance(n.func.value, ast.Name) and n.func.value.id == holder.id and len(n.args) == 2:
            per_key.append(n.args[1])
    if not creators:
        return f"signatures are written into the records of `{holder.id}`, which this function did not create: it is not known that every parameter has a record of its own"

    def shared_value(v: Optional[ast.AST]) -> bool:
        return v is not None and not (isinstance(v, ast.Constant)) and not (isinstance(v, ast.Tuple) and not v.elts)

    for d in creators:
        d = _peel(d) if d is not None else d
        while isinstance(d, ast.Call) and call_attr(d) in ("dict", "OrderedDict") and len(d.args) == 1 and not d.keywords and not isinstance(d.func, ast.Attribute):
            d = d.args[0]
        if d is None:
            return f"`{holder.id}` is bound in a way that is not understood"
        if isinstance(d, ast.Call) and call_attr(d) == "fromkeys":
            v = d.args[1] if len(d.args) > 1 else kwarg(d, "value")
            if shared_value(v):
                return f"`{_u(d)}` gives every parameter name the same record object `{_u(v)}`: each signature written into it replaces the previous one, so every parameter publishes the signature of the expression normalised last (`x - y` and `y - x` under one signature)"
            continue
        if isinstance(d, ast.DictComp):
            ok, why = _is_fresh(None, d.value)
            if not ok:
                return f"the records of `{holder.id}` are {why} for every name - not known to be one object per parameter"
            continue
        if isinstance(d, ast.Dict):
            if any(k is None for k in d.keys):
                return f"`{holder.id}` starts from another mapping's records (`**`): not known to be one object per parameter"
            vals = [_u(v) for v in d.values if not _is_fresh(None, v)[0]]
            if len(vals) != len(set(vals)) or vals:
                return f"the records of `{holder.id}` are not fresh objects per name"
            continue
        if isinstance(d, ast.Call) and call_attr(d) in ("defaultdict",) and d.args and isinstance(d.args[0], ast.Name) and d.args[0].id in ("dict", "OrderedDict"):
            continue
        if isinstance(d, ast.Call) and call_attr(d) in ("dict", "OrderedDict") and not d.args and not d.keywords:
            continue
        if isinstance(d, ast.Call) and call_attr(d) == "zip" or (isinstance(d, ast.BinOp) and isinstance(d.op, ast.Mult)):
            return f"`{holder.id}` is built from `{_u(d)}`: its records are not known to be one object per parameter"
        return f"`{holder.id}` is built by `{_u(d)}`: its records are not known to be one object per parameter"
    for v in per_key:
        ok, why = _is_fresh(fn, v)
        # a record bound to a local that is re-created in every iteration is fresh; a name bound outside any loop is shared
        if isinstance(v, ast.Name):
            defs = _defs_of(fn, v.id)
            in_loop = all(d is not None and any(isinstance(a, (ast.For, ast.While)) for a in ancestors(d)) for d in defs) and bool(defs)
            ok = ok and in_loop
            why = why or f"the single object `{v.id}` created outside the loop"
        if not ok:
            return f"records stored into `{holder.id}` are {why}: several parameter names may share one record, and each signature written into it replaces the previous one"
    return None


def boundary_rules(repo: Repo, R: Report, sig_name: str) -> None:
    from ..normal import nfunc

    r_pair = R.rule("C12-D2a-pairing", "wherever the package publishes expression signatures per parameter, each signature sits under the name of the parameter whose expression it was computed from (key and expression come from the same item of the same mapping; names and signatures that travel in separate sequences are re-joined in the same order)", 2)
    sig_names: Set[str] = {sig_name}
    wrap_keys: Set[str] = set()
    src_attrs: Set[str] = set()
    verdicts: Dict[Tuple[str, str, int, str], Tuple[bool, str, str, int]] = {}

    def normal(mod, qn, f):
        try:
            return nfunc(repo, mod.rel, qn, copyprop="all")
        except AnalysisError:
            raise
        except Exception:
            return f

    def record(ok: bool, rel: str, qn: str, node: ast.AST, what: str) -> None:
        st = stmt_of(node) if not isinstance(node, ast.stmt) else node
        key = (rel, qn, getattr(node, "lineno", 0), norm(node))
        verdicts[key] = (ok, norm(st), what, getattr(node, "lineno", 0))

    def note_root(s: Optional[_Stream], fn: Optional[ast.AST] = None) -> None:
        if s is None:
            return
        try:
            t = ast.parse(s.root, mode="eval").body
        except SyntaxError:
            return
        if isinstance(t, ast.Name) and fn is not None:
            for d in _defs_of(fn, t.id):
                if d is not None:
                    note_root(_Stream(_u(d), "key"))
        for n in ast.walk(t):
            if isinstance(n, ast.Call) and call_attr(n) == "getattr" and len(n.args) >= 2 and isinstance(n.args[1], ast.Constant) and isinstance(n.args[1].value, str):
                src_attrs.add(n.args[1].value)
            elif isinstance(n, ast.Attribute) and n.attr.startswith("_"):
                src_attrs.add(n.attr)

    def zip_check(rel: str, qn: str, fn: ast.AST, z: ast.Call, idx: int, depth: int) -> bool:
        """The sequence of signatures is argument *idx* of zip call *z*: names must be the other argument, in the same order."""
        zz = z
        outer, p = z, parent(z)
        while isinstance(p, ast.Call) and call_attr(p) in ORDER_KEEPING and not isinstance(p.func, ast.Attribute):
            outer, p = p, parent(p)
        if isinstance(p, ast.Call) and call_attr(p) in ("dict", "OrderedDict") and not isinstance(p.func, ast.Attribute):
            if len(zz.args) != 2 or idx != 1:
                record(False, rel, qn, zz, "signatures are zipped into a mapping but not as its values")
                return True
            ks, vs = _stream(fn, zz.args[0]), _stream(fn, zz.args[1])
            note_root(vs, fn)
            if ks is None or vs is None:
                record(False, rel, qn, zz, "names and signatures are matched by position and the order of one side is not known to follow the other")
            elif ks.root != vs.root or ks.comp != "key":
                record(False, rel, qn, zz, f"signatures of the elements of `{vs.root}` are matched by position with `{_u(zz.args[0])}`, which is not its sequence of names")
            elif ks.reorder or vs.reorder:
                side = "names" if ks.reorder else "signatures"
                record(False, rel, qn, zz, f"names and signatures are matched by position, but the {side} went through {ks.reorder or vs.reorder}: a signature lands under another parameter's name (two sweeps with different values publish equal signatures)")
            else:
                record(True, rel, qn, zz, "")
            return True
        # zip(..) iterated by a loop / comprehension: follow the name bound at position idx
        holder = p
        tgt = None
        if isinstance(holder, ast.For) and holder.iter is outer:
            tgt = holder.target
        elif isinstance(holder, ast.comprehension) and holder.iter is outer:
            tgt = holder.target
        if isinstance(tgt, ast.Tuple) and len(tgt.elts) > idx and isinstance(tgt.elts[idx], ast.Name):
            nm = tgt.elts[idx].id
            scope = holder if isinstance(holder, ast.For) else parent(holder)
            found = False
            for u in ast.walk(scope):
                if isinstance(u, ast.Name) and u.id == nm and isinstance(u.ctx, ast.Load):
                    found = follow(rel, qn, fn, u, u, depth + 1) or found
            return found
        return False

    def seq_uses(rel: str, qn: str, fn: ast.AST, seq: ast.AST, depth: int) -> None:
        """*seq* evaluates to a sequence of signatures without their names."""
        p = parent(seq)
        cur = seq
        while isinstance(p, ast.Call) and call_attr(p) in ORDER_KEEPING and not isinstance(p.func, ast.Attribute):
            cur, p = p, parent(p)
        if isinstance(p, ast.Call) and call_attr(p) == "zip":
            idx = next(i for i, a in enumerate(p.args) if a is cur)
            if not zip_check(rel, qn, fn, p, idx, depth):
                record(False, rel, qn, p, "signatures are matched with something by position and the pairing with their parameter names is not established")
            return
        if isinstance(p, (ast.Assign, ast.AnnAssign)):
            tg = p.targets[0] if isinstance(p, ast.Assign) else p.target
            if isinstance(tg, ast.Name):
                list_uses(rel, qn, fn, tg.id, p, depth)
                return
        if isinstance(p, ast.Return):
            if not fn.name.startswith("_"):
                record(False, rel, qn, p, "signatures leave the function as a bare sequence, separated from their parameter names")
            return
        record(False, rel, qn, stmt_of(seq), "signatures are collected without their parameter names and the re-joining is not recognised")

    def list_uses(rel: str, qn: str, fn: ast.AST, name: str, origin: ast.AST, depth: int) -> None:
        joined = False
        exported = False
        for u in walk_no_nested(fn):
            if isinstance(u, ast.Name) and u.id == name and isinstance(u.ctx, ast.Load):
                p, cur = parent(u), u
                while isinstance(p, ast.Call) and call_attr(p) in ORDER_KEEPING | ORDER_CHANGING and not isinstance(p.func, ast.Attribute):
                    cur, p = p, parent(p)
                if isinstance(p, ast.Call) and call_attr(p) == "zip":
                    idx = next(i for i, a in enumerate(p.args) if a is cur)
                    joined = zip_check(rel, qn, fn, p, idx, depth) or joined
                elif isinstance(p, ast.Return):
                    exported = True
        if not joined:
            if exported and fn.name.startswith("_"):
                return
            record(False, rel, qn, origin, "signatures are collected without their parameter names and never re-joined with them in a recognised way")

    def follow(rel: str, qn: str, fn: ast.AST, node: ast.AST, src: ast.AST, depth: int = 0) -> bool:
        """*node* evaluates to the signature of *src* (an expression, or a record holding it).  Climb to where it is
        stored; True when a pairing obligation was decided."""
        if depth > 6:
            return False
        p = parent(node)
        if isinstance(p, ast.Dict):
            i = next((i for i, v in enumerate(p.values) if v is node), None)
            if i is None:
                return False
            k = p.keys[i]
            if isinstance(k, ast.Constant):
                if isinstance(k.value, str) and depth == 0:
                    wrap_keys.add(k.value)
                return follow(rel, qn, fn, p, src, depth)
            if k is None:
                return False
            bad = _pair_verdict(fn, k, src, p)
            record(bad is None, rel, qn, p, bad or "")
            return True
        if isinstance(p, ast.IfExp):
            return follow(rel, qn, fn, p, src, depth) if node is not p.test else False
        if isinstance(p, ast.DictComp):
            if node is p.value:
                bad = _pair_verdict(fn, p.key, src, node)
                record(bad is None, rel, qn, p, bad or "")
                return True
            return False
        if isinstance(p, ast.Tuple) and len(p.elts) == 2 and p.elts[1] is node and isinstance(p.ctx, ast.Load):
            bad = _pair_verdict(fn, p.elts[0], src, node)
            record(bad is None, rel, qn, p, bad or "")
            return True
        if isinstance(p, (ast.ListComp, ast.GeneratorExp, ast.SetComp)) and p.elt is node:
            note_root(_stream(fn, p), fn)
            seq_uses(rel, qn, fn, p, depth)
            return True
        if isinstance(p, ast.Call):
            nm = call_attr(p)
            if nm == "cast" and p.args and p.args[-1] is node:
                return follow(rel, qn, fn, p, src, depth)
            if isinstance(p.func, ast.Attribute) and nm in ("setdefault", "__setitem__") and len(p.args) == 2 and p.args[1] is node:
                bad = _pair_verdict(fn, p.args[0], src, node)
                record(bad is None, rel, qn, p, bad or "")
                return True
            if isinstance(p.func, ast.Attribute) and nm == "append" and p.args and p.args[0] is node and isinstance(p.func.value, ast.Name):
                list_uses(rel, qn, fn, p.func.value.id, p, depth)
                return True
            return False
        if isinstance(p, (ast.Assign, ast.AnnAssign)) and p.value is node:
            tgts = p.targets if isinstance(p, ast.Assign) else [p.target]
            done = False
            for t in tgts:
                if isinstance(t, ast.Subscript) and isinstance(t.slice, ast.Constant) and isinstance(t.value, (ast.Subscript, ast.Call)):
                    # M[name][c] = sig / M.setdefault(name, {..})[c] = sig: the signature is written into the record kept under
                    # the parameter's name - the name must be the one bound with the expression, and the record must be
                    # that name's own object (a record shared by several names ends up with the last signature written)
                    inner = t.value
                    holder = key = None
                    if isinstance(inner, ast.Subscript) and not isinstance(inner.slice, ast.Slice):
                        holder, key = inner.value, inner.slice
                    elif isinstance(inner, ast.Call) and isinstance(inner.func, ast.Attribute) and inner.func.attr in ("setdefault", "get") and inner.args:
                        holder, key = inner.func.value, inner.args[0]
                    if holder is None:
                        continue
                    if isinstance(t.slice.value, str) and depth == 0:
                        wrap_keys.add(t.slice.value)
                    bad = _pair_verdict(fn, key, src, p)
                    if bad is None:
                        fresh_default = isinstance(inner, ast.Call) and inner.func.attr == "setdefault" and len(inner.args) == 2 and _is_fresh(None, inner.args[1])[0]
                        if not fresh_default:
                            bad = _records_shared(fn, holder)
                    record(bad is None, rel, qn, p, bad or "")
                    done = True
                elif isinstance(t, ast.Subscript):
                    bad = _pair_verdict(fn, t.slice, src, p)
                    record(bad is None, rel, qn, p, bad or "")
                    done = True
                elif isinstance(t, ast.Name):
                    for u in walk_no_nested(fn):
                        if isinstance(u, ast.Name) and u.id == t.id and isinstance(u.ctx, ast.Load):
                            done = follow(rel, qn, fn, u, src, depth + 1) or done
            return done
        return False

    def is_wrapper(fn: ast.AST, call: ast.Call, src: ast.AST) -> bool:
        if not (isinstance(src, ast.Name) and src.id in _params(fn) and not _defs_of(fn, src.id)):
            return False
        p, cur = parent(call), call
        while isinstance(p, (ast.IfExp, ast.Dict)) or (isinstance(p, ast.Call) and call_attr(p) == "cast"):
            cur, p = p, parent(p)
        if isinstance(p, ast.Return):
            return True
        if isinstance(p, ast.Assign) and len(p.targets) == 1 and isinstance(p.targets[0], ast.Name):
            nm = p.targets[0].id
            return any(isinstance(r, ast.Return) and isinstance(r.value, ast.Name) and r.value.id == nm for r in walk_no_nested(fn))
        return False

    # candidates: functions that call a signature function (wrappers found on the way extend the set)
    analysed: Set[Tuple[str, str]] = set()
    for _round in range(3):
        grew = False
        cands: List[Tuple[object, str, ast.AST]] = []
        for mod, qn, f in repo.all_functions():
            if mod.rel.startswith("semantiva/examples/") or (mod.rel == SEM and f.name == sig_name):
                continue
            direct = [c for c in calls_in(f) if call_attr(c) in sig_names]
            if direct:
                cands.append((mod, qn, f))
        # same-module callers of private candidates (the call appears in their normal form)
        priv = {(m.rel, f.name) for m, _q, f in cands if f.name.startswith("_")}
        for mod, qn, f in repo.all_functions():
            if any((mod.rel, call_attr(c)) in priv for c in calls_in(f)) and not any(f is x for _m, _q, x in cands):
                cands.append((mod, qn, f))
        for mod, qn, f in cands:
            repo.module(mod.rel)  # consulted
            nf = normal(mod, qn, f)
            for c in calls_in(nf):
                if call_attr(c) not in sig_names or not (c.args or c.keywords):
                    continue
                src = c.args[0] if c.args else c.keywords[0].value
                if is_wrapper(nf, c, src):
                    if nf.name not in sig_names:
                        sig_names.add(nf.name)
                        grew = True
                    continue
                env = _env_at(nf, c)
                if isinstance(src, ast.Name) and src.id in env:
                    note_root(env[src.id].s, nf)
                follow(mod.rel, qn, nf, c, src)
            analysed.add((mod.rel, qn))
        if not grew:
            break
    # records that carry a signature under a fixed key across a module boundary: readers of that key
    for mod, qn, f in repo.all_functions():
        if not wrap_keys or mod.rel not in {rel for rel, _ in analysed}:
            continue
        nf = None
        for n in walk_no_nested(f):
            hit = (isinstance(n, ast.Subscript) and isinstance(n.slice, ast.Constant) and n.slice.value in wrap_keys and isinstance(n.ctx, ast.Load)) or \
                  (isinstance(n, ast.Call) and call_attr(n) == "get" and n.args and isinstance(n.args[0], ast.Constant) and n.args[0].value in wrap_keys)
            if hit:
                nf = normal(mod, qn, f)
                break
        if nf is None:
            continue
        for n in walk_no_nested(nf):
            if isinstance(n, ast.Subscript) and isinstance(n.slice, ast.Constant) and n.slice.value in wrap_keys and isinstance(n.ctx, ast.Load):
                follow(mod.rel, qn, nf, n, n.value, 1)
            elif isinstance(n, ast.Call) and call_attr(n) == "get" and n.args and isinstance(n.args[0], ast.Constant) and n.args[0].value in wrap_keys and isinstance(n.func, ast.Attribute):
                follow(mod.rel, qn, nf, n, n.func.value, 1)
    for (rel, qn, _ln, _txt), (ok, st, what, line) in sorted(verdicts.items(), key=lambda kv: kv[0][:3]):
        R.check(ok, r_pair, rel, qn, st, what, line)

    snapshot_rule(repo, R, src_attrs)
    evaluator_rule(repo, R)
    # the value side of the property only: checks that re-apply these rules for what a signature *identifies* (C04, C05) do not need it
    if not getattr(R, "rule_prefix", ""):
        exact_values_rule(repo, R)


def _is_fresh(fn: Optional[ast.AST], e: Optional[ast.AST], depth: int = 0) -> Tuple[bool, str]:
    """(True, "") when *e*, evaluated in *fn*, is an object nobody outside *fn* holds; else (False, what it may alias)."""
    if e is None or depth > 8:
        return False, "an unknown value"
    if isinstance(e, (ast.Dict, ast.DictComp, ast.Constant, ast.List, ast.ListComp, ast.Tuple)):
        return True, ""
    if isinstance(e, ast.Call):
        nm = call_attr(e)
        if nm in ("dict", "OrderedDict", "copy", "deepcopy"):
            return True, ""
        if nm in ("cast", "MappingProxyType") and e.args:
            return _is_fresh(fn, e.args[-1], depth + 1)
        return False, f"the result of `{_u(e.func)}(..)`"
    if isinstance(e, ast.BoolOp):
        for v in e.values:
            ok, why = _is_fresh(fn, v, depth + 1)
            if not ok:
                return ok, why
        return True, ""
    if isinstance(e, ast.IfExp):
        for v in (e.body, e.orelse):
            ok, why = _is_fresh(fn, v, depth + 1)
            if not ok:
                return ok, why
        return True, ""
    if isinstance(e, ast.Name) and fn is not None:
        defs = _defs_of(fn, e.id)
        if not defs:
            if e.id in _params(fn):
                return False, f"the caller's own object (parameter `{e.id}`)"
            return False, f"`{e.id}`"
        for d in defs:
            ok, why = _is_fresh(fn, d, depth + 1)
            if not ok:
                return ok, why
        return True, ""
    return False, f"`{_u(e)}`"


def _param_roots(fn: ast.AST, e: Optional[ast.AST], depth: int = 0) -> Set[str]:
    """Parameters of *fn* that *e* is computed from (through local assignments)."""
    out: Set[str] = set()
    if e is None or depth > 6:
        return out
    ps = _params(fn)
    for n in ast.walk(e):
        if isinstance(n, ast.Name) and isinstance(n.ctx, ast.Load):
            defs = _defs_of(fn, n.id)
            if not defs and n.id in ps:
                out.add(n.id)
            for d in defs:
                out |= _param_roots(fn, d, depth + 1)
    return out


MAKERS: List[Tuple[object, ast.AST]] = []
EVAL_SITES: List[Tuple[object, ast.AST, ast.Call]] = []  # (module, evaluating function, eval call): filled by evaluator_rule


def snapshot_rule(repo: Repo, R: Report, src_attrs: Set[str]) -> None:
    r = R.rule("C12-D3a-snapshot", "a generated sweep class compiles its expressions when it is created and publishes signatures computed later from a class attribute: that attribute holds a private copy of the expression mapping taken at creation (not the caller's own mapping, whose later contents would be signed while the earlier ones are evaluated)", 1)
    MAKERS.clear()
    for mod, qn, c in repo.all_classes():
        if mod.rel.startswith("semantiva/examples/"):
            continue
        maker = next((a for a in ancestors(c) if isinstance(a, FuncNode)), None)
        for st in c.body:
            if isinstance(st, ast.Assign) and len(st.targets) == 1 and isinstance(st.targets[0], ast.Name):
                tname, val = st.targets[0].id, st.value
            elif isinstance(st, ast.AnnAssign) and isinstance(st.target, ast.Name) and st.value is not None:
                tname, val = st.target.id, st.value
            else:
                continue
            if tname not in src_attrs or maker is None:
                continue
            repo.module(mod.rel)
            roots = _param_roots(maker, val)
            # a sibling attribute computed, at creation, by a call on the same parameter: the compiled side
            compiled = False
            for s2 in c.body:
                v2 = s2.value if isinstance(s2, (ast.Assign, ast.AnnAssign)) else None
                if s2 is st or v2 is None:
                    continue
                stack, seen = [v2], 0
                while stack and seen < 12:
                    x = stack.pop()
                    seen += 1
                    if isinstance(x, ast.Name):
                        stack.extend(d for d in _defs_of(maker, x.id) if d is not None)
                    elif isinstance(x, ast.Call) and not (call_attr(x) in ("dict", "set", "list", "tuple", "sorted", "frozenset")) and roots & _param_roots(maker, x):
                        compiled = True
            if not compiled:
                continue
            if not any(maker is m for _mm, m in MAKERS):
                MAKERS.append((mod, maker))
            ok, why = _is_fresh(maker, val)
            R.check(ok, r, mod.rel, qualname_of(c), norm(st),
                    f"the expression source the signatures are computed from is {why}: the expressions were compiled when the class was created, the signature is computed later from what the mapping holds then - after the caller re-uses or edits the mapping, sweeps that evaluate `a - b` and `b - a` publish the same signature", st.lineno)


def _is_assignment(f: ast.AST, g: ast.AST) -> bool:
    """*g*, a namespace the evaluating function *f* evaluates in, is (computed from) the variable assignment *f* was called with."""
    if isinstance(g, ast.Name) and g.id in _params(f) and not _defs_of(f, g.id):
        return True
    return bool(_param_roots(f, g) - {"self", "cls"})


def _top_stmt(f: ast.AST, n: ast.AST) -> Optional[ast.AST]:
    """The statement of the body of *f* (top level) that contains *n*."""
    chain = [n] + list(ancestors(n))
    for x in chain:
        if any(x is st for st in f.body):
            return x
    return None


def _mapping_parts(f: ast.AST, e: Optional[ast.AST], at: ast.AST, depth: int = 0) -> List[ast.AST]:
    """The mappings the mapping *e* (read at statement *at* of *f*) is merged from, in lookup priority (the first one that has
    a key decides).  What is not a merge of a known shape is one part of its own; entries written out with constant values
    (`"__builtins__": {}`) bind no name of an expression and are left out; entries written out with other values are a table."""
    if e is None or (isinstance(e, ast.Constant) and e.value is None):
        return []
    if depth > 6:
        return [e]
    if isinstance(e, ast.Dict):
        out: List[ast.AST] = []
        lit_k, lit_v = [], []

        def flush():
            if lit_k:
                d = ast.Dict(keys=list(lit_k), values=list(lit_v))
                ast.copy_location(d, e)
                out.insert(0, d)
                lit_k.clear()
                lit_v.clear()

        for k, v in zip(e.keys, e.values):
            if k is None:
                flush()
                out[0:0] = _mapping_parts(f, v, at, depth + 1)
            elif isinstance(v, ast.Constant) or (isinstance(v, (ast.Dict, ast.List, ast.Tuple, ast.Set)) and not ast.dump(v).count("Name(")):
                continue
            else:
                lit_k.append(k)
                lit_v.append(v)
        flush()
        return out
    if isinstance(e, ast.BinOp) and isinstance(e.op, ast.BitOr):
        return _mapping_parts(f, e.right, at, depth + 1) + _mapping_parts(f, e.left, at, depth + 1)
    if isinstance(e, ast.Call):
        nm = call_attr(e)
        plain = not isinstance(e.func, ast.Attribute) or isinstance(e.func.value, ast.Name) and e.func.value.id in ("collections", "copy", "types", "typing", "t")
        if plain and nm in ("dict", "OrderedDict") and len(e.args) <= 1 and not any(isinstance(a, ast.Starred) for a in e.args):
            out = []
            for a in list(e.args) + [k.value for k in e.keywords if k.arg is None]:
                out[0:0] = _mapping_parts(f, a, at, depth + 1)
            named = [k for k in e.keywords if k.arg is not None and not isinstance(k.value, ast.Constant)]
            if named:
                d = ast.Dict(keys=[ast.Constant(value=k.arg) for k in named], values=[k.value for k in named])
                ast.copy_location(d, e)
                out.insert(0, d)
            return out
        if plain and nm == "ChainMap" and not any(isinstance(a, ast.Starred) for a in e.args) and not e.keywords:
            out = []
            for a in e.args:
                out.extend(_mapping_parts(f, a, at, depth + 1))
            return out
        if plain and nm in ("cast",) and len(e.args) == 2:
            return _mapping_parts(f, e.args[1], at, depth + 1)
        if plain and nm in ("copy", "deepcopy", "MappingProxyType") and len(e.args) == 1 and not e.keywords:
            return _mapping_parts(f, e.args[0], at, depth + 1)
        if isinstance(e.func, ast.Attribute) and e.func.attr == "copy" and not e.args and not e.keywords:
            return _mapping_parts(f, e.func.value, at, depth + 1)
        return [e]
    if isinstance(e, ast.Name):
        unions = [n for n in walk_no_nested(f) if isinstance(n, ast.AugAssign) and isinstance(n.target, ast.Name) and n.target.id == e.id and isinstance(n.op, ast.BitOr)]
        defs = _defs_of(f, e.id)
        plain = [d for d in defs if d is not None]
        if len(plain) != 1 or len(defs) != 1 + len(unions) or e.id in _params(f):
            return [e]
        top_def, top_at = _top_stmt(f, plain[0]), _top_stmt(f, at)
        if top_def is None or top_at is None or not isinstance(top_def, (ast.Assign, ast.AnnAssign)):
            return [e]
        idx = {id(st): i for i, st in enumerate(f.body)}
        lo, hi = idx[id(top_def)], idx[id(top_at)]
        if lo >= hi:
            return [e]
        out = _mapping_parts(f, plain[0], top_def, depth + 1)
        # what is laid over it, in place, between its creation and the evaluation: statements of the body in between, also under
        # `if` (a merge that happens on some path decides the lookup order on that path); anything else that changes the
        # mapping in place makes it one part of unknown make-up
        changes: List[ast.AST] = []
        for n in walk_no_nested(f):
            tgt = None
            if isinstance(n, ast.Call) and isinstance(n.func, ast.Attribute) and n.func.attr in _MUT | {"__ior__"}:
                tgt = n.func.value
            elif isinstance(n, (ast.Assign, ast.Delete)):
                tgt = next((t.value for t in n.targets if isinstance(t, ast.Subscript)), None)
            elif isinstance(n, ast.AugAssign):
                tgt = n.target.value if isinstance(n.target, ast.Subscript) else n.target
            if isinstance(tgt, ast.Name) and tgt.id == e.id:
                changes.append(n)
        for n in sorted(changes, key=lambda x: (x.lineno, x.col_offset)):
            if isinstance(n, ast.Assign) and all(isinstance(t, ast.Subscript) and isinstance(t.slice, ast.Constant) for t in n.targets) \
                    and (isinstance(n.value, ast.Constant) or isinstance(n.value, ast.Dict) and not n.value.keys):
                continue  # `scope["__builtins__"] = {}` binds no name of an expression
            st = stmt_of(n)
            top = _top_stmt(f, st)
            chain = [st] + list(ancestors(st))
            inner = chain[:next(i for i, x in enumerate(chain) if x is top) + 1] if top is not None else []
            if top is None or not (lo < idx[id(top)] < hi) or not all(isinstance(x, ast.If) for x in inner[1:]):
                return [e]
            if isinstance(st, ast.Expr) and st.value is n and isinstance(n, ast.Call) and n.func.attr == "update" and len(n.args) <= 1 and not any(isinstance(x, ast.Starred) for x in n.args):
                for x in list(n.args) + [k.value for k in n.keywords if k.arg is None]:
                    out[0:0] = _mapping_parts(f, x, st, depth + 1)
                named = [k for k in n.keywords if k.arg is not None and not isinstance(k.value, ast.Constant)]
                if named:
                    d = ast.Dict(keys=[ast.Constant(value=k.arg) for k in named], values=[k.value for k in named])
                    ast.copy_location(d, n)
                    out.insert(0, d)
            elif st is n and isinstance(n, ast.AugAssign) and isinstance(n.target, ast.Name) and isinstance(n.op, ast.BitOr):
                out[0:0] = _mapping_parts(f, n.value, st, depth + 1)
            else:
                return [e]
        return out
    return [e]


def _lookup_order(f: ast.AST, c: ast.Call) -> List[ast.AST]:
    """The mappings `eval(code, globals, locals)` resolves a name of the code in, the one consulted first at the head."""
    g = c.args[1] if len(c.args) > 1 else kwarg(c, "globals")
    loc = c.args[2] if len(c.args) > 2 else kwarg(c, "locals")
    at = stmt_of(c)
    return _mapping_parts(f, loc, at) + _mapping_parts(f, g, at)


def evaluator_rule(repo: Repo, R: Report) -> None:
    from ..normal import nfunc

    r = R.rule("C12-D3b-functions", "the function names of an expression (abs/min/max/..) denote the same functions for every evaluator: the table an evaluator evaluates with is its own object; a table shared by all evaluators (module or class level) is never updated in place", 1)
    if not MAKERS:
        raise AnalysisError("sweep class makers not found (no generated class defines the signature source attribute)")
    # the call graph is only used to *find* the evaluation sites; the files that decide the verdict are theirs
    consulted_before = set(repo.consulted)
    reach = repo.call_graph_closure([(m, f) for m, f in MAKERS], by_name_fallback=True)
    repo.consulted.clear()
    repo.consulted.update(consulted_before)
    sites = []
    seen_calls: Set[int] = set()
    for m, f0, _p in reach.values():
        if not isinstance(f0, FuncNode):
            continue
        for c in calls_in(f0, include_nested=True):
            if call_name(c) in ("eval", "exec") and len(c.args) >= 2 and id(c) not in seen_calls:
                seen_calls.add(id(c))
                f = next(a for a in ancestors(c) if isinstance(a, FuncNode))
                # the evaluated code is a compiled expression (not a file that is executed)
                code, hops = c.args[0], 0
                while isinstance(code, ast.Name) and hops < 4:
                    ds = [d for fn2 in [f] + [a for a in ancestors(f) if isinstance(a, FuncNode)] for d in _defs_of(fn2, code.id) if d is not None]
                    if len(ds) != 1:
                        break
                    code, hops = ds[0], hops + 1
                if isinstance(code, ast.Call) and call_name(code) == "compile" or (isinstance(code, ast.Name) and any(code.id in _params(a) for a in [f] + [a for a in ancestors(f) if isinstance(a, FuncNode)])):
                    repo.module(m.rel)
                    sites.append((m, f, c))
    if not sites:
        raise AnalysisError("evaluation site (eval with an explicit globals table) not reachable from the sweep factory")
    EVAL_SITES.clear()
    EVAL_SITES.extend(sites)
    # (the value side of the property: not re-applied by the checks that only ask what a signature identifies - C04, C05)
    value_side = not getattr(R, "rule_prefix", "")
    rp = value_side and R.rule("C12-D3c-precedence", "a name of the expression that the variable assignment of a call binds denotes that variable: where the evaluation looks names up, the assignment is consulted before every function table (eval's locals before its globals; in a merged mapping the later entry wins), so a sweep variable named like a table function (min, max, abs, ..) is not silently replaced by the function", 1)
    tables: List[Tuple[object, ast.AST, ast.Call, ast.AST]] = []
    for m, f, c in sites:
        # namespaces of the evaluation, in either position (names are looked up in both), each taken apart into the mappings it
        # is merged from, in lookup order: a part that is (computed from) a parameter of the evaluating function is the variable
        # assignment of this call (what may happen to its values on the way is decided by C12-D4); every other one is a
        # function table
        order = _lookup_order(f, c)
        own = [g for g in order if not _is_assignment(f, g)]
        if not own:
            raise AnalysisError(f"{m.rel}:{qualname_of(f)}: `{norm(c)}` evaluates without a function table of its own (shape not understood)")
        tables.extend((m, f, c, g) for g in own)
        if not value_side:
            continue
        shadow = None
        for i, g in enumerate(order):
            if not _is_assignment(f, g):
                later = next((v for v in order[i + 1:] if _is_assignment(f, v)), None)
                if later is not None:
                    shadow = (g, later)
                    break
        R.check(shadow is None, rp, m.rel, qualname_of(f), norm(stmt_of(c)),
                (f"`{norm(c)}` looks a name up in the function table `{_u(shadow[0])}` before the variable assignment `{_u(shadow[1])}` of the call: a sweep variable named like a table function (min, max, abs, ..) evaluates as the function, so the expression no longer computes the value its signature (which names the variable) stands for - `x if max == 0 else -x` takes the same branch for every value of `max`") if shadow else "",
                c.lineno)
    for m, f, c, g in tables:
        cls = next((a for a in ancestors(f) if isinstance(a, ast.ClassDef)), None)
        mod_level = {t.id for st in m.tree.body if isinstance(st, (ast.Assign, ast.AnnAssign)) for t in (st.targets if isinstance(st, ast.Assign) else [st.target]) if isinstance(t, ast.Name)}
        cls_level = set()
        if cls is not None:
            cls_level = {t.id for st in cls.body if isinstance(st, (ast.Assign, ast.AnnAssign)) for t in (st.targets if isinstance(st, ast.Assign) else [st.target]) if isinstance(t, ast.Name)}

        def shared(fn: ast.AST, e: Optional[ast.AST], depth: int = 0) -> Optional[str]:
            """Name of the module/class-level table *e* may be (not a copy of it)."""
            if e is None or depth > 6:
                return None
            if isinstance(e, ast.Name):
                defs = _defs_of(fn, e.id)
                if not defs:
                    return e.id if e.id in mod_level and e.id not in _params(fn) else None
                for d in defs:
                    s = shared(fn, d, depth + 1)
                    if s:
                        return s
                return None
            if isinstance(e, ast.Attribute) and e.attr in cls_level:
                b = e.value
                if isinstance(b, ast.Name) and (b.id in ("self", "cls") or (cls is not None and b.id == cls.name)):
                    return _u(e)
                if isinstance(b, ast.Call) and call_attr(b) == "type" or (isinstance(b, ast.Attribute) and b.attr == "__class__"):
                    return _u(e)
                return None
            if isinstance(e, (ast.BoolOp,)):
                for v in e.values:
                    s = shared(fn, v, depth + 1)
                    if s:
                        return s
            if isinstance(e, ast.IfExp):
                return shared(fn, e.body, depth + 1) or shared(fn, e.orelse, depth + 1)
            if isinstance(e, ast.Call) and call_attr(e) == "cast" and e.args:
                return shared(fn, e.args[-1], depth + 1)
            return None

        # where the globals table comes from: an attribute of the evaluator (stores in its methods) or a local
        owners: List[Tuple[ast.AST, ast.AST, ast.AST]] = []  # (function, store statement, value)
        attr = g.attr if isinstance(g, ast.Attribute) and isinstance(g.value, ast.Name) and g.value.id == "self" else None
        scope_fns = [n for n in (cls.body if cls is not None else []) if isinstance(n, FuncNode)]
        if attr is not None:
            for meth in scope_fns:
                try:
                    nm = nfunc(repo, m.rel, qualname_of(meth))
                except AnalysisError:
                    raise
                except Exception:
                    nm = meth
                for st in walk_no_nested(nm):
                    if isinstance(st, (ast.Assign, ast.AnnAssign)) and st.value is not None:
                        for t in (st.targets if isinstance(st, ast.Assign) else [st.target]):
                            if isinstance(t, ast.Attribute) and t.attr == attr and isinstance(t.value, ast.Name) and t.value.id == "self":
                                owners.append((nm, st, st.value))
        elif isinstance(g, ast.Name):
            for fn2 in [f] + [a for a in ancestors(f) if isinstance(a, FuncNode)]:
                for d in _defs_of(fn2, g.id):
                    if d is not None:
                        owners.append((fn2, stmt_of(d), d))
        if not owners and isinstance(g, ast.Dict):
            R.ok(r, m.rel, qualname_of(f), norm(stmt_of(c)))  # functions written out at the evaluation: a fresh table per call
            continue
        if not owners:
            raise AnalysisError(f"{m.rel}:{qualname_of(f)}: where the globals table of `{norm(c)}` is created could not be told")
        for fn2, st, val in owners:
            sh = shared(fn2, val)
            bad = None
            if sh:
                # names in fn2 that may be the shared table
                aliases = {n.id for n in walk_no_nested(fn2) if isinstance(n, ast.Name) and shared(fn2, n) == sh}
                muts = list(mutation_sites_of(fn2, aliases, sh))
                if attr is not None:
                    for meth in scope_fns:
                        for n in walk_no_nested(meth):
                            tg = None
                            if isinstance(n, ast.Call) and isinstance(n.func, ast.Attribute) and n.func.attr in _MUT:
                                tg = n.func.value
                            elif isinstance(n, (ast.Assign, ast.AugAssign, ast.Delete)):
                                for t in (n.targets if not isinstance(n, ast.AugAssign) else [n.target]):
                                    if isinstance(t, ast.Subscript):
                                        tg = t.value
                            if isinstance(tg, ast.Attribute) and tg.attr == attr and isinstance(tg.value, ast.Name) and tg.value.id == "self":
                                muts.append(n)
                if muts:
                    bad = muts[0]
            R.check(bad is None, r, m.rel, qualname_of(f if attr is None else fn2), norm(st),
                    f"the evaluator's function table is the shared table `{sh}` itself and `{norm(bad) if bad is not None else ''}` updates it in place: after one evaluator was built with overriding functions every evaluator computes abs/min/max/.. with them, so expressions with equal signatures (even the same expression) give different values", getattr(bad, "lineno", st.lineno) if bad is not None else st.lineno)


_MUT = {"update", "setdefault", "pop", "popitem", "clear", "__setitem__", "__delitem__"}


def mutation_sites_of(fn: ast.AST, aliases: Set[str], shared_text: str):
    """Statements / calls of *fn* that change, in place, an object named by one of *aliases* or by *shared_text*."""
    def hits(e: ast.AST) -> bool:
        return (isinstance(e, ast.Name) and e.id in aliases) or _u(e) == shared_text

    for n in walk_no_nested(fn):
        if isinstance(n, ast.Call) and isinstance(n.func, ast.Attribute) and n.func.attr in _MUT and hits(n.func.value):
            yield n
        elif isinstance(n, (ast.Assign, ast.Delete)):
            for t in n.targets:
                if isinstance(t, ast.Subscript) and hits(t.value):
                    yield n
        elif isinstance(n, ast.AugAssign):
            if isinstance(n.target, ast.Subscript) and hits(n.target.value):
                yield n
            elif isinstance(n.op, ast.BitOr) and hits(n.target):
                yield n


# =============================================================================================================
# D4 exact values: a declared sweep value reaches the evaluation as the number that was written
# =============================================================================================================

# conversions into a number type whose + and * are not associative (binary / decimal floating point)
INEXACT_CONV = {"float", "complex", "Decimal", "float64", "float32", "float16", "float128", "longdouble", "double", "single", "half", "float_", "fsum"}
# conversions of a whole collection into one machine type (a list of ints and floats becomes all-float)
ARRAY_CONV = {"asarray", "array", "asfarray", "asanyarray", "fromiter", "astype", "ascontiguousarray", "full", "Series"}
_COPY = {"list", "tuple", "cast", "sorted", "reversed", "iter", "enumerate", "copy", "deepcopy"}
_VIEW = {"get", "items", "values", "keys", "pop", "copy"}
_NOT_VALUES: Set[str] = set()  # fields of the spec classes that are not listed as values: filled by exact_values_rule
_THROUGH: Set[str] = set()  # functions of the value path (they hand declared values on): filled by exact_values_rule


def _binder_iter(fn: ast.AST, name: str, at: Optional[ast.AST] = None) -> List[ast.AST]:
    """Iterables whose elements *name* is bound to (for loops and comprehension clauses of *fn*)."""
    out: List[ast.AST] = []
    for n in ast.walk(fn):
        if isinstance(n, (ast.For, ast.comprehension)):
            if any(isinstance(x, ast.Name) and x.id == name for x in ast.walk(n.target)):
                out.append(n.iter)
    return out


def _declared(fn: ast.AST, e: Optional[ast.AST], depth: int = 0) -> bool:
    """True when *e* is (a copy / an element / a field of) something *fn* was given - a value that was declared, not computed."""
    if e is None or depth > 10:
        return False
    if isinstance(e, ast.Name):
        defs = _defs_of(fn, e.id)
        its = _binder_iter(fn, e.id)
        # may-analysis: one declared source is enough (a parameter that is re-bound on some path still carries the given value on others)
        if e.id in _params(fn):
            return True
        return any(d is not None and _declared(fn, d, depth + 1) for d in defs) or any(_declared(fn, i, depth + 1) for i in its)
    if isinstance(e, ast.Attribute) and e.attr in _NOT_VALUES and isinstance(e.value, ast.Name):
        return False  # a field the values are computed from (bounds, step counts, keys), not a value of the variable
    if isinstance(e, (ast.Attribute, ast.Subscript, ast.Starred)):
        return _declared(fn, e.value, depth + 1)
    if isinstance(e, ast.BoolOp):
        return any(_declared(fn, v, depth + 1) for v in e.values)
    if isinstance(e, ast.IfExp):
        return _declared(fn, e.body, depth + 1) or _declared(fn, e.orelse, depth + 1)
    if isinstance(e, (ast.List, ast.Tuple)):
        return bool(e.elts) and all(_declared(fn, x, depth + 1) for x in e.elts)
    if isinstance(e, (ast.ListComp, ast.GeneratorExp)):
        return len(e.generators) == 1 and _declared(fn, e.generators[0].iter, depth + 1)
    if isinstance(e, ast.Call):
        nm = call_attr(e)
        if isinstance(e.func, ast.Attribute) and nm in _VIEW:
            return _declared(fn, e.func.value, depth + 1)
        if nm in _COPY and e.args:
            return _declared(fn, e.args[-1] if nm == "cast" else e.args[0], depth + 1)
        if nm == "zip":
            return any(_declared(fn, a, depth + 1) for a in e.args)
        if nm in _THROUGH:
            return True
    return False


def _conv_name(f: ast.AST) -> Optional[str]:
    d = dotted_name(f)
    return d.split(".")[-1] if d else None


FLOAT_ONLY = {"float", "floating", "float64", "float32", "float16", "float_", "double", "single", "half"}


def _is_float_atom(var: str):
    """Atom for cfg.edges_guaranteeing: ``isinstance(var, <floating-point classes only>)`` / ``type(var) is float``."""
    def atom(e: ast.AST) -> Optional[bool]:
        if isinstance(e, ast.Call) and call_attr(e) == "isinstance" and len(e.args) == 2 and dotted_name(e.args[0]) == var:
            cl = _class_exprs(e.args[1])
            names = [dotted_name(c) for c in cl]
            if names and all(n is not None and n.split(".")[-1] in FLOAT_ONLY for n in names):
                return True
        if isinstance(e, ast.Compare) and len(e.ops) == 1 and isinstance(e.ops[0], (ast.Is, ast.Eq)):
            l, r = e.left, e.comparators[0]
            for a, b in ((l, r), (r, l)):
                if isinstance(a, ast.Call) and call_attr(a) == "type" and len(a.args) == 1 and dotted_name(a.args[0]) == var and (dotted_name(b) or "").split(".")[-1] in FLOAT_ONLY:
                    return True
        return None
    return atom


def lossy_helper(fn: ast.AST) -> Optional[Tuple[ast.Call, str]]:
    """*fn* hands its argument back; (conversion call, its name) when on some path the argument comes back converted into
    floating point without a test on that path that it already is a floating-point number (so integers / rationals are hit)."""
    from ..cfg import returns_only_through

    rets = [r.value for r in walk_no_nested(fn) if isinstance(r, ast.Return) and r.value is not None]
    if not rets:
        return None
    g = None
    for c in walk_no_nested(fn):
        if not (isinstance(c, ast.Call) and _conv_name(c.func) in INEXACT_CONV and len(c.args) == 1 and isinstance(c.args[0], ast.Name)):
            continue
        var = c.args[0].id
        if var not in _params(fn) or _defs_of(fn, var):
            continue
        if _flows_into(fn, c, rets) is None:
            continue
        atom = _is_float_atom(var)
        guarded = False
        cur = c
        for a in ancestors(c):
            if a is fn:
                break
            if isinstance(a, ast.IfExp):
                e = edges_guaranteeing(a.test, atom)
                if (cur is a.body and "T" in e) or (cur is a.orelse and "F" in e):
                    guarded = True
            cur = a
        if guarded:
            continue
        g = g or CFG(fn)
        st = stmt_of(c)
        ids = [n.id for n in g.nodes if n.ast is st]
        if not ids:
            return c, f"{_conv_name(c.func)}()"
        holds, _path, _n = returns_only_through(g, atom, targets=ids)
        if not holds:
            return c, f"{_conv_name(c.func)}()"
    return None


def make_conv_of(repo: Repo, m) -> "Callable[[ast.AST], Optional[str]]":
    """Resolver for `_inexact_conversions`: what conversion into floating point the function expression *f* applies to its
    argument - a conversion itself, or a function of the package that hands its argument back converted (`lossy_helper`)."""
    cache: Dict[int, Optional[str]] = {}

    def conv_of(f: ast.AST) -> Optional[str]:
        nm = _conv_name(f)
        if nm in INEXACT_CONV:
            return f"{nm}()"
        if nm is None:
            return None
        targets: List[Tuple[object, ast.AST]] = []
        r = None
        try:
            r = repo.resolve_name(m, f, f)
        except Exception:
            r = None
        if r is not None and isinstance(r[1], FuncNode):
            targets.append(r)
        elif isinstance(f, ast.Name) and isinstance(m.defs.get(f.id), FuncNode):
            targets.append((m, m.defs[f.id]))
        elif isinstance(f, ast.Attribute) and isinstance(f.value, ast.Name):
            # self._helper / cls._helper / Class._helper: the methods of that name in this module
            targets.extend((m, d) for q, d in m.defs.items() if isinstance(d, FuncNode) and q.endswith("." + f.attr) and (f.value.id in ("self", "cls") or q.split(".")[-2:-1] == [f.value.id]))
        for tm, tf in targets:
            if id(tf) not in cache:
                hit = lossy_helper(tf)
                cache[id(tf)] = f"{tf.name}() -> {hit[1]}" if hit else None
            if cache[id(tf)]:
                return cache[id(tf)]
        return None

    return conv_of


def _direct_conv(f: ast.AST) -> Optional[str]:
    nm = _conv_name(f)
    return f"{nm}()" if nm in INEXACT_CONV else None


def _inexact_conversions(fn: ast.AST, conv_of=None) -> List[Tuple[ast.AST, ast.AST, str]]:
    """(expression, converted collection, conversion) for every element-wise conversion of a collection in *fn*.
    *conv_of* tells which function expressions convert into floating point (default: the conversions themselves)."""
    conv_of = conv_of or _direct_conv
    out: List[Tuple[ast.AST, ast.AST, str]] = []
    for n in ast.walk(fn):
        if isinstance(n, (ast.ListComp, ast.GeneratorExp, ast.SetComp, ast.DictComp)):
            elts = [n.value] if isinstance(n, ast.DictComp) else [n.elt]
            for g in n.generators:
                tnames = {x.id for x in ast.walk(g.target) if isinstance(x, ast.Name)}
                for el in elts:
                    for c in ast.walk(el):
                        if isinstance(c, ast.Call) and c.args and tnames & {x.id for a in c.args for x in ast.walk(a) if isinstance(x, ast.Name)} and conv_of(c.func):
                            coll = g.iter
                            # {v: conv(M[v][i]) for v in M}: what is converted is an element of M
                            for a in c.args:
                                for s in ast.walk(a):
                                    if isinstance(s, ast.Subscript) and not (isinstance(s.value, ast.Name) and s.value.id in tnames):
                                        coll = s.value
                                        break
                            out.append((n, coll, conv_of(c.func)))
        elif isinstance(n, ast.Call):
            nm = call_attr(n)
            if nm == "map" and len(n.args) >= 2 and conv_of(n.args[0]):
                out.append((n, n.args[1], conv_of(n.args[0])))
            elif nm in ARRAY_CONV and isinstance(n.func, ast.Attribute):
                coll = n.func.value if nm == "astype" else (n.args[0] if n.args else None)
                if coll is not None:
                    out.append((n, coll, f"{_u(n.func)}()"))
        elif isinstance(n, (ast.List, ast.Tuple)) and len(n.elts) >= 2 and isinstance(getattr(n, "ctx", None), ast.Load):
            bases = []
            for x in n.elts:
                if isinstance(x, ast.Call) and _conv_name(x.func) in INEXACT_CONV and len(x.args) == 1 and isinstance(x.args[0], ast.Subscript):
                    bases.append(x.args[0].value)
            if len(bases) == len(n.elts) and len({_u(b) for b in bases}) == 1:
                out.append((n, bases[0], f"{_conv_name(n.elts[0].func)}()"))
    return out


def _flows_into(fn: ast.AST, src: ast.AST, sinks: List[ast.AST]) -> Optional[ast.AST]:
    """The first of *sinks* (expressions) that the value of *src* reaches through local names of *fn*."""
    inside = {id(x) for x in ast.walk(src)}
    tainted: Set[str] = set()
    for _ in range(6):
        grew = False
        for n in ast.walk(fn):
            val, tgts = None, []
            if isinstance(n, ast.Assign):
                val, tgts = n.value, n.targets
            elif isinstance(n, (ast.AnnAssign, ast.AugAssign, ast.NamedExpr)) and n.value is not None:
                val, tgts = n.value, [n.target]
            elif isinstance(n, (ast.For, ast.comprehension)):
                val, tgts = n.iter, [n.target]
            elif isinstance(n, ast.Call) and isinstance(n.func, ast.Attribute) and n.func.attr in ("append", "extend", "insert", "update", "setdefault", "add") and n.args:
                val, tgts = ast.Tuple(elts=list(n.args), ctx=ast.Load()), [n.func.value]
            if val is None:
                continue
            hit = any(id(x) in inside or (isinstance(x, ast.Name) and x.id in tainted) for x in ast.walk(val))
            if hit:
                for t in tgts:
                    root = t
                    while isinstance(root, (ast.Subscript, ast.Attribute)):
                        root = root.value
                    for x in ([root] if isinstance(root, ast.Name) else [y for y in ast.walk(t) if isinstance(y, ast.Name)]):
                        if x.id not in tainted and x.id not in ("self", "cls"):
                            tainted.add(x.id)
                            grew = True
        if not grew:
            break
    for s in sinks:
        if any(id(x) in inside or (isinstance(x, ast.Name) and x.id in tainted) for x in ast.walk(s)):
            return s
    return None


def exact_values_rule(repo: Repo, R: Report) -> None:
    from ..normal import nfunc

    r = R.rule("C12-D4-exact-values", "a declared sweep value reaches the evaluation of the expressions as the number that was written: where the package turns a variable declaration into a spec object, and where it lists the values of a spec object for the sweep, a declared collection of values is not converted element by element into floating point (nor coerced into one machine type) - integers stay integers, so + and * stay associative on them", 2)
    if not MAKERS:
        raise AnalysisError("sweep class makers not found")
    consulted_before = set(repo.consulted)
    reach = repo.call_graph_closure([(m, f) for m, f in MAKERS], by_name_fallback=True)
    repo.consulted.clear()
    repo.consulted.update(consulted_before)

    def nform(m, f):
        try:
            return nfunc(repo, m.rel, qualname_of(f), loops=True, ifexp=False)
        except AnalysisError:
            raise
        except Exception:
            return f

    # the functions that list the values of each variable: they tell the spec classes apart, element by element of a mapping
    spec_classes: Dict[str, Tuple[object, ast.ClassDef]] = {}
    listers: List[Tuple[object, ast.AST]] = []
    for m, f0, _p in reach.values():
        if not isinstance(f0, FuncNode) or m.rel.startswith("semantiva/examples/"):
            continue
        per_var: Dict[str, Dict[str, Tuple[object, ast.ClassDef]]] = {}
        for n in walk_no_nested(f0):
            if isinstance(n, ast.Call) and call_attr(n) == "isinstance" and len(n.args) == 2 and isinstance(n.args[0], ast.Name):
                x = n.args[0].id
                its = _binder_iter(f0, x)
                if not any(isinstance(_peel(i), ast.Call) and call_attr(_peel(i)) in ("items", "values") for i in its):
                    continue
                for cexpr in _class_exprs(n.args[1]):
                    rr = repo.resolve_name(m, cexpr, n)
                    if rr is not None and isinstance(rr[1], ast.ClassDef):
                        per_var.setdefault(x, {})[rr[1].name] = rr
        for x, found in per_var.items():
            if len(found) >= 2:
                spec_classes.update(found)
                if not any(f0 is y for _m, y in listers):
                    listers.append((m, f0))
    if not listers:
        raise AnalysisError("the function that lists the values of the sweep variables (dispatch over the spec classes) was not found in the call graph of the sweep factory")

    # which fields of which spec class are listed as they are (the explicit values), as opposed to fields a sequence is computed
    # from (range bounds are floats by declaration) or keys that are looked up
    def class_fields(c: ast.ClassDef) -> List[str]:
        out = [st.target.id for st in c.body if isinstance(st, ast.AnnAssign) and isinstance(st.target, ast.Name) and "ClassVar" not in _u(st.annotation)]
        init = next((st for st in c.body if isinstance(st, FuncNode) and st.name == "__init__"), None)
        if init is not None:
            out = [a.arg for a in init.args.args[1:] + init.args.kwonlyargs]
        return out

    explicit: Dict[str, Set[str]] = {}
    for m, f0 in listers:
        for n in ast.walk(f0):
            if not (isinstance(n, ast.Attribute) and isinstance(n.value, ast.Name) and isinstance(n.ctx, ast.Load)):
                continue
            x = n.value.id
            cur, p = n, parent(n)
            while isinstance(p, ast.Call) and call_attr(p) in _COPY and not isinstance(p.func, ast.Attribute) and any(a is cur for a in p.args):
                cur, p = p, parent(p)
            value_use = isinstance(p, (ast.Assign, ast.AnnAssign, ast.Return, ast.Yield, ast.comprehension, ast.For)) and not (isinstance(p, (ast.comprehension, ast.For)) and p.iter is not cur) \
                or (isinstance(p, ast.Call) and call_attr(p) in ({"map", "append", "extend"} | ARRAY_CONV) and any(a is cur for a in p.args))
            if not value_use:
                continue
            guarded: Set[str] = set()
            for a in ancestors(n):
                if isinstance(a, (ast.If, ast.IfExp)):
                    body = a.body if isinstance(a.body, list) else [a.body]
                    if any(n is y for b in body for y in ast.walk(b)):
                        for t in ast.walk(a.test):
                            if isinstance(t, ast.Call) and call_attr(t) == "isinstance" and len(t.args) == 2 and isinstance(t.args[0], ast.Name) and t.args[0].id == x:
                                guarded |= {dotted_name(ce).split(".")[-1] for ce in _class_exprs(t.args[1]) if dotted_name(ce)}
            for cname, (_cm, cnode) in spec_classes.items():
                if n.attr in class_fields(cnode) and (not guarded or cname in guarded):
                    explicit.setdefault(cname, set()).add(n.attr)
    _NOT_VALUES.clear()
    _NOT_VALUES.update(a for cname, (_cm, cnode) in spec_classes.items() for a in class_fields(cnode) if a not in explicit.get(cname, ()))
    _NOT_VALUES.difference_update(a for fs in explicit.values() for a in fs)
    if not explicit:
        raise AnalysisError("no spec class whose field is listed as the values of the variable was recognised")

    what = "integer values of `{coll}` are converted with {conv} before the expressions are evaluated: on floating-point numbers + and * are not associative, so two expressions with the same signature (`a + b + c`, `a + (b + c)`) deliver different values at integer points beyond 2**53"
    for m, f0 in listers:
        repo.module(m.rel)
        nf = nform(m, f0)
        sinks: List[ast.AST] = []
        for n in walk_no_nested(nf):
            if isinstance(n, (ast.Return, ast.Yield, ast.YieldFrom)) and n.value is not None:
                sinks.append(n.value)
            elif isinstance(n, ast.Assign) and any(isinstance(t, ast.Subscript) for t in n.targets):
                sinks.append(n.value)
        bad = None
        for expr, coll, conv in _inexact_conversions(nf, make_conv_of(repo, m)):
            if _declared(nf, coll) and _flows_into(nf, expr, sinks) is not None:
                bad = (expr, coll, conv)
                break
        R.check(bad is None, r, m.rel, qualname_of(f0), norm(stmt_of(bad[0])) if bad else "values of every spec listed as declared",
                what.format(coll=_u(bad[1]), conv=bad[2]) if bad else "", bad[0].lineno if bad else f0.lineno)
    # the functions that use the listed values (they call a lister) and the step generators they hand them to
    _THROUGH.clear()
    _THROUGH.update(f0.name for _m, f0 in listers)
    users: List[Tuple[object, ast.AST]] = []
    steppers: List[Tuple[object, ast.AST]] = []
    for m, f0, _p in reach.values():
        if not isinstance(f0, FuncNode) or any(f0 is y for _m, y in listers):
            continue
        got: Set[str] = set()
        for n in walk_no_nested(f0):
            if isinstance(n, (ast.Assign, ast.AnnAssign)) and isinstance(n.value, ast.Call) and call_attr(n.value) in {y.name for _m, y in listers}:
                for t in (n.targets if isinstance(n, ast.Assign) else [n.target]):
                    got |= {x.id for x in ast.walk(t) if isinstance(x, ast.Name)}
        if not got:
            continue
        users.append((m, f0))
        for c in calls_in(f0):
            if any(isinstance(a, ast.Name) and a.id in got for a in list(c.args) + [k.value for k in c.keywords]):
                for tm, tn in repo.resolve_call(m, c):
                    if isinstance(tn, FuncNode) and not any(tn is y for _m, y in steppers + listers):
                        steppers.append((tm, tn))
    _THROUGH.update(f0.name for _m, f0 in steppers)
    for m, f0 in steppers + users:
        repo.module(m.rel)
        nf = nform(m, f0)
        sinks = []
        for n in walk_no_nested(nf):
            if isinstance(n, (ast.Return, ast.Yield, ast.YieldFrom)) and n.value is not None:
                sinks.append(n.value)
            elif isinstance(n, ast.Call):
                sinks.extend(k.value for k in n.keywords if k.arg is None)
        bad = None
        for expr, coll, conv in _inexact_conversions(nf, make_conv_of(repo, m)):
            if _declared(nf, coll) and _flows_into(nf, expr, sinks) is not None:
                bad = (expr, coll, conv)
                break
        R.check(bad is None, r, m.rel, qualname_of(f0), norm(stmt_of(bad[0])) if bad else "listed values handed on as they are",
                what.format(coll=_u(bad[1]), conv=bad[2]) if bad else "", bad[0].lineno if bad else f0.lineno)
    # where the values of one sweep step meet the compiled expression: the variable namespace of the evaluation is the
    # assignment the evaluating function was called with - not a copy whose numbers were converted into floating point
    for m, f, c in EVAL_SITES:
        repo.module(m.rel)
        nf = nform(m, f)
        evs = [x for x in calls_in(nf) if call_name(x) in ("eval", "exec") and len(x.args) >= 2] or [c]
        conv_of = make_conv_of(repo, m)
        for ev in evs:
            spaces = list(ev.args[1:3]) + [k.value for k in ev.keywords if k.arg in ("globals", "locals")]
            bad = None
            for expr, coll, conv in _inexact_conversions(nf, conv_of):
                if _declared(nf, coll) and _flows_into(nf, expr, spaces) is not None:
                    bad = (expr, coll, conv)
                    break
            R.check(bad is None, r, m.rel, qualname_of(f), norm(stmt_of(bad[0])) if bad else f"variable values reach `{norm(ev)}` as given",
                    ("the variable assignment of the evaluation is rebuilt with its numbers passed through " + bad[2] + ": integers (numpy integers, values beyond 2**53) and rationals are evaluated in floating point, where + and * are not associative, so two expressions with the same signature (`x + y + z`, `x + (z + y)`) deliver different values") if bad else "",
                    bad[0].lineno if bad else ev.lineno)
    # where spec objects are built from a declaration
    n_sites = 0
    for m, qn, f in repo.all_functions():
        if m.rel.startswith("semantiva/examples/"):
            continue
        raw_sites = [c for c in calls_in(f) if call_attr(c) in spec_classes and not isinstance(parent(c), ast.Attribute)]
        if not raw_sites:
            continue
        ok_sites = []
        for c in raw_sites:
            rr = repo.resolve_name(m, c.func, c)
            if rr is not None and isinstance(rr[1], ast.ClassDef) and any(rr[1] is sc for _sm, sc in spec_classes.values()):
                ok_sites.append(c)
        if not ok_sites:
            continue
        repo.module(m.rel)
        nf = nform(m, f)
        sites = [c for c in calls_in(nf) if call_attr(c) in spec_classes]
        convs = [(e, coll, conv) for e, coll, conv in _inexact_conversions(nf, make_conv_of(repo, m)) if _declared(nf, coll)]
        for c in sites:
            cname = call_attr(c)
            fields = class_fields(spec_classes[cname][1])
            args = [a for i, a in enumerate(c.args) if isinstance(a, ast.Starred) or (i < len(fields) and fields[i] in explicit.get(cname, ()))]
            args += [k.value for k in c.keywords if k.arg is None or k.arg in explicit.get(cname, ())]
            if not explicit.get(cname):
                continue
            n_sites += 1
            bad = next(((e, coll, conv) for e, coll, conv in convs if _flows_into(nf, e, args) is not None), None)
            R.check(bad is None, r, m.rel, qn, norm(c), what.format(coll=_u(bad[1]), conv=bad[2]) if bad else "", c.lineno)
    if not n_sites:
        raise AnalysisError("no place where the package builds a sweep-variable spec object from a declaration was found")
